"""
More bounded stand-ins: parser robustness and round trip (C15, C16), renderings (C18), interruption (C19).
Loaded by harness.py (H is the harness module).
"""
import itertools
import json
import random
import signal
import os
import sys
import time

H = sys.modules.get('__main__') if 'H' not in globals() else H       # set by the loader

ElectionProfile = H.ElectionProfile
ElectionProfileError = H.ElectionProfileError
Election = H.Election


def profile_invariants(p):
    "sentence 2 of C15 on an accepted profile; returns a list of problems"
    bad = []
    n = p.nCand
    if not (isinstance(p.nSeats, int) and 1 <= p.nSeats <= len(p.eligible)):
        bad.append('seats %r vs %d eligible' % (p.nSeats, len(p.eligible)))
    if p.nBallots < len(p.eligible):
        bad.append('fewer ballots (%d) than eligible candidates (%d)' % (p.nBallots, len(p.eligible)))
    if not (p.withdrawn <= set(range(1, n + 1))):
        bad.append('withdrawn outside 1..nCand: %s' % sorted(p.withdrawn))
    if p.eligible | p.withdrawn != set(range(1, n + 1)) or p.eligible & p.withdrawn:
        bad.append('eligible/withdrawn do not partition 1..nCand')
    tot = 0
    for bl in p.ballotLines:
        r = list(bl.ranking)
        tot += bl.multiplier
        if not r:
            bad.append('empty ranking kept')
        if len(set(r)) != len(r):
            bad.append('repeated candidate in ranking %s' % r)
        if any(c in p.withdrawn or not (1 <= c <= n) for c in r):
            bad.append('withdrawn/out-of-range candidate in ranking %s' % r)
        if bl.multiplier < 1:
            bad.append('multiplier %r' % bl.multiplier)
    for bl in p.ballotLinesEqual:
        tot += bl.multiplier
        flat = [c for rk in bl.ranking for c in rk]
        if len(set(flat)) != len(flat):
            bad.append('repeated candidate in equal ranking %s' % (bl.ranking,))
        if any(c in p.withdrawn or not (1 <= c <= n) for c in flat):
            bad.append('withdrawn/out-of-range candidate in equal ranking %s' % (bl.ranking,))
        if any(len(rk) == 0 for rk in bl.ranking):
            bad.append('empty rank kept')
    if tot != p.nBallots:
        bad.append('nBallots %d != sum of kept multipliers %d' % (p.nBallots, tot))
    for d, nm in ((p.candidateName, 'candidateName'), (p.candidateOrder, 'candidateOrder'), (p.tieOrder, 'tieOrder'), (p.nickName, 'nickName')):
        if set(d.keys()) != set(range(1, n + 1)):
            bad.append('%s keys are not 1..nCand' % nm)
    return bad


TOKENS = ['0', '1', '2', '3', '4', '9', '-1', '-2', '-9', '=', '1=2', '2=1=3', '1=1', '"a"', '"b c"', '"x', 'y"', '"', '#', '# c', '/*', '*/',
          '/* x */', '[tie', '[nick', '[droop', '[withdrawn', '[undeclared', '[bogus]', ']', 'a', 'b]', '1]', '(id1)', '(id', '2)', '(', ')',
          '\n', '\n', 'rule=wigm', 'x=y', '00', '007', '١', '﻿', 'é', '"é"', '"100%"', '"%s"', '"%d %"']


def valid_texts(rng):
    base = [
        '3 2\n4 1 2 0\n2 3 0\n0\n"A"\n"B"\n"C"\n"T"\n',
        '3 2\n4 1 2 0\n2 3 0\n0\n"100% A"\n"B %s"\n"%d"\n"T 5%"\n',
        '4 2\n-2\n3 1 3 0\n2 4 1 0\n1 3=4 1 0\n0\n"A" "B" "C" "D"\n"T" "S" "C"\n',
        '3 1\n[nick a b c]\n[tie c a b]\n2 a b 0\n2 c 0\n0\n"A"\n"B"\n"C"\n"T"\n',
        '3 2 # comment\n(b1) 1 2 0\n(b2) 2 0\n(b 3) 3 1 0\n0\n"A" "B" "C" "T"\n',
        '4 2\n[undeclared 4]\n[withdrawn 3]\n5 1 0\n4 2 4 0\n2 4 0\n0\n"A" "B" "C" "W"\n"T"\n',
        '3 2\n[droop rule=meek precision=4]\n4 1 2 0\n2 3 0\n0\n"A"\n"B"\n"C"\n"T"\n',
    ]
    return base


def check_C16(res):
    res.rule = ('token soups over the BLT alphabet, truncations of valid files at every token, single-token insert/delete/replace '
                'mutations, targeted corner tokens (4301-digit numeral, 256 candidates, out-of-range ids): ElectionProfile(data=s) '
                'must succeed with the invariants or raise ElectionProfileError; every accepted option-free profile is handed to '
                'all 11 rules; distinct = distinct (outcome class, first 3 tokens)')
    rng = random.Random(res.seed)
    budget = 30 if res.tier == 'quick' else 900
    t0 = time.time()
    texts = []
    for v in valid_texts(rng):
        toks = v.split()
        texts.append(v)
        for k in range(len(toks)):
            texts.append(' '.join(toks[:k]))
        for _ in range(400 if res.tier == 'quick' else 4000):
            t2 = list(toks)
            op = rng.choice('idr')
            i = rng.randrange(len(t2))
            if op == 'i':
                t2.insert(i, rng.choice(TOKENS))
            elif op == 'd':
                del t2[i]
            else:
                t2[i] = rng.choice(TOKENS)
            texts.append(' '.join(t2))
    # targeted
    texts.append('2 1\n1 1 0\n1 2 0\n0\n')
    texts.append('3 1\n' + '9' * 4301 + ' 1 0\n0\n"a" "b" "c" "t"\n')
    texts.append('3 1\n1 ' + '1' * 4400 + ' 0\n0\n"a" "b" "c" "t"\n')
    texts.append('3 1 -9\n3 1 0\n0\n"a" "b" "c" "t"\n')
    texts.append('3 1 -1\n3 1=1 2 0\n0\n"a" "b" "c" "t"\n')
    for n in (255, 256, 257):
        texts.append('%d 1\n%d %d 1 0\n0\n%s\n"t"\n' % (n, n, n, ' '.join('"c%d"' % i for i in range(1, n + 1))))
    # option lists: every [tie ...] / [withdrawn ...] / [undeclared ...] list of 2..4 entries over ids 0..4 for 3 candidates
    # (repeats, omissions, out-of-range ids), by number and through nicknames
    import itertools as _it
    targeted = []
    for k in (2, 3, 4):
        for ids in _it.product('01234', repeat=k):
            targeted.append('3 2 [tie %s] 4 1 2 0 2 3 0 0 "a" "b" "c" "t"' % ' '.join(ids))
    for ids in _it.product(['a', 'b', 'c', '3', 'd'], repeat=3):
        targeted.append('3 2 [nick a b c] [tie %s] 4 a b 0 2 c 0 0 "A" "B" "C" "t"' % ' '.join(ids))
    for opt in ('withdrawn', 'undeclared'):
        for k in (1, 2, 3):
            for ids in _it.product('01234', repeat=k):
                targeted.append('3 1 [%s %s] 4 1 2 0 2 3 0 0 "a" "b" "c" "t"' % (opt, ' '.join(ids)))
    for nk in _it.product(['a', 'b', 'a b', '1', '"a"'], repeat=3):
        targeted.append('3 2 [nick %s] 4 1 2 0 0 "A" "B" "C" "t"' % ' '.join(nk))
    rng.shuffle(targeted)
    targeted = targeted[:600 if res.tier == 'quick' else len(targeted)]
    for _ in range(6000 if res.tier == 'quick' else 100000):
        k = rng.randint(1, 14)
        texts.append(' '.join(rng.choice(TOKENS) for _ in range(k)))
    texts += ['', ' ', '\n', '0', '0 0', '1', '1 1 0 "a" "t"', '1 1 1 1 0 0 "a" "t"']
    rng.shuffle(texts)
    texts = targeted + texts        # the targeted option lists first: they are few and cheap
    for s in texts:
        if time.time() - t0 > budget:
            break
        res.evaluations += 1
        signal.alarm(10)
        try:
            p = ElectionProfile(data=s)
            outcome = 'accepted'
        except ElectionProfileError:
            outcome = 'profile-error'
            p = None
        except H.Timeout:
            res.violation('parser does not terminate within 10 s', {'text': s[:2000]})
            continue
        except BaseException as e:      # noqa
            res.violation('ElectionProfile(data=...) raised %s: %s' % (type(e).__name__, str(e)[:80]), {'text': s[:3000]})
            continue
        finally:
            signal.alarm(0)
        res.sig((outcome, tuple(s.split()[:3])))
        if p is None:
            continue
        bad = profile_invariants(p)
        if bad:
            res.violation('accepted profile violates the invariants of a valid election: %s' % '; '.join(bad[:3]), {'text': s[:3000]})
            continue
        if p.options:
            continue
        for rule in H.RULES:
            try:
                Election(p, {'rule': rule})
            except BaseException as e:      # noqa
                res.violation('Election(profile, rule=%s) failed on an accepted option-free profile: %s' % (rule, type(e).__name__), {'text': s[:3000], 'rule': rule})
                break
        res.sample({'text': s[:120], 'outcome': outcome})


LAYOUTS = ['lines', 'oneline', 'comments', 'spaces']


def render(st, layout, rng, use_nick=False, use_ids=False):
    "election structure -> BLT text in a given layout"
    n = st['ncand']
    toks = []
    nl = '\n'
    head = ['%d %d' % (n, st['nseats'])]
    if st.get('nicks'):
        head.append('[nick %s]' % ' '.join(st['nicks']))
    if st.get('tie'):
        head.append('[tie %s]' % ' '.join(str(c) for c in st['tie']))
    if st.get('undeclared'):
        head.append('[undeclared %s]' % ' '.join(str(c) for c in st['undeclared']))
    wd = list(st.get('withdrawn', ()))
    if wd and rng.random() < 0.5:
        head.append('[withdrawn %s]' % ' '.join(str(c) for c in wd))
    else:
        head += ['-%d' % c for c in wd]
    lines = []
    for i, (m, r) in enumerate(st['lines']):
        def nm(c):
            return st['nicks'][c - 1] if (use_nick and st.get('nicks')) else str(c)
        body = ' '.join('='.join(nm(c) for c in x) if isinstance(x, tuple) else nm(x) for x in r)
        if use_ids:
            for _ in range(m):
                lines.append('(b%d_%d) %s 0' % (i, _, body))
        else:
            lines.append('%d %s 0' % (m, body))
    tail = ['0'] + ['"%s"' % x for x in st['names']] + ['"%s"' % st['title']]
    if st.get('source') is not None:
        tail.append('"%s"' % st['source'])      # may be the empty string ""
        if st.get('comment'):
            tail.append('"%s"' % st['comment'])
    parts = head + lines + tail
    if layout == 'lines':
        return '\n'.join(parts) + '\n'
    if layout == 'oneline':
        return ' '.join(parts)
    if layout == 'spaces':
        return ' \t \n\n'.join(parts) + '  \n'
    out = []
    for p_ in parts:
        out.append(p_ + (' # trailing comment "x" [y' if rng.random() < 0.4 and not p_.startswith('"') else ''))
        if rng.random() < 0.3:
            out.append(rng.choice(['/* block /* nested */ "still" comment */', '/* precinct # 1 */', '/* a "quoted word" # and a hash */',
                                   '/* 50% of /* # nested */ it */']))
    return '\n'.join(out) + '\n'


def check_C15(res):
    res.rule = ('election structures (<=5 candidates, strict and equal rankings, withdrawn/undeclared sets, tie orders, nicknames, names with '
                'spaces / comment markers / UTF-8, source and comment strings) rendered in 4 layouts x {numbers, nicknames} x '
                '{multipliers, ballot ids}; parsed back and compared with the structure; distinct = distinct structures')
    rng = random.Random(res.seed)
    budget = 30 if res.tier == 'quick' else 900
    t0 = time.time()
    namepool = ['Ann', 'Bob Smith', 'Cé Dürr', 'D # not a comment', 'E /* x */ F', 'G-H', 'I=J', '[K]', '100% Renewable', 'Mr %s', '%d']
    while time.time() - t0 < budget and res.evaluations < (4000 if res.tier == 'quick' else 10 ** 6):
        n = rng.randint(2, 5)
        wd = tuple(sorted(rng.sample(range(1, n + 1), rng.randint(0, max(0, n - 2))))) if rng.random() < 0.5 else ()
        elig = [c for c in range(1, n + 1) if c not in wd]
        und = tuple(c for c in elig if rng.random() < 0.2) if rng.random() < 0.3 else ()
        lines = []
        for _ in range(rng.randint(1, 5)):
            k = rng.randint(1, n)
            perm = rng.sample(range(1, n + 1), k)
            r = []
            i = 0
            while i < len(perm):
                if rng.random() < 0.2 and i + 1 < len(perm):
                    r.append((perm[i], perm[i + 1]))
                    i += 2
                else:
                    r.append(perm[i])
                    i += 1
            lines.append((rng.choice([1, 1, 2, 3, 7]), r))
        st = dict(ncand=n, nseats=rng.randint(1, max(1, len(elig))), lines=lines, withdrawn=wd, undeclared=und,
                  names=[rng.choice(namepool) + str(i) for i in range(n)], title=rng.choice(['T', 'An election', 'Élection # 1']),
                  tie=(rng.sample(range(1, n + 1), n) if rng.random() < 0.4 else None),
                  nicks=(['n%s' % chr(97 + i) for i in range(n)] if rng.random() < 0.4 else None),
                  source=(rng.choice(['src file', 'src file', '']) if rng.random() < 0.45 else None), comment=None)
        if st['source'] is not None and rng.random() < 0.5:
            st['comment'] = 'a comment'
        # expected structure after parsing
        kept = []
        for m, r in lines:
            rr = []
            for x in r:
                if isinstance(x, tuple):
                    y = tuple(c for c in x if c not in wd)
                    if len(y) > 1:
                        rr.append(y)
                    elif len(y) == 1:
                        rr.append(y[0])
                elif x not in wd:
                    rr.append(x)
            if rr:
                kept.append((m, rr))
        total = sum(m for m, _ in kept)
        if total < len(elig):
            continue        # not a well-formed election (too few ballots)
        res.sig((n, wd, tuple((m, tuple(r)) for m, r in lines)))
        for layout in LAYOUTS:
            for use_nick in ((False, True) if st['nicks'] else (False,)):
                for use_ids in (False, True):
                    has_eq_or_drop = any(isinstance(x, tuple) for _, r in kept for x in r) or len(kept) != len(lines)
                    text = render(st, layout, rng, use_nick, use_ids)
                    res.evaluations += 1
                    try:
                        p = ElectionProfile(data=text)
                    except ElectionProfileError as e:
                        if use_ids and has_eq_or_drop and 'ballot IDs' in str(e):
                            res.violation('well-formed file with ballot ids and a dropped or equal-ranking line is rejected: %s' % e, {'text': text})
                        else:
                            res.violation('well-formed file rejected: %s' % e, {'text': text, 'layout': layout})
                        continue
                    except BaseException as e:      # noqa
                        res.violation('well-formed file raises %s' % type(e).__name__, {'text': text})
                        continue
                    prob = []
                    if p.nCand != n or p.nSeats != st['nseats']:
                        prob.append('candidate/seat count')
                    if p.title != st['title']:
                        prob.append('title %r' % p.title)
                    if [p.candidateName[i] for i in range(1, n + 1)] != st['names']:
                        prob.append('names %r' % p.candidateName)
                    if p.withdrawn != set(wd) or p.undeclared != set(und):
                        prob.append('withdrawn/undeclared')
                    if (p.source or None) != (st['source'] or None) or (p.comment or None) != st['comment']:
                        prob.append('source/comment')
                    if st['tie'] and [c for c, o in sorted(p.tieOrder.items(), key=lambda kv: kv[1])] != st['tie']:
                        prob.append('tie order')
                    if st['nicks'] and [p.nickName[i] for i in range(1, n + 1)] != st['nicks']:
                        prob.append('nicknames')
                    got = []
                    exp = []
                    for m, r in kept:
                        reps = m if use_ids else 1
                        for _ in range(reps):
                            exp.append((1 if use_ids else m, r))
                    strict = [(bl.multiplier, list(bl.ranking)) for bl in p.ballotLines]
                    equal = [(bl.multiplier, [x if len(x) > 1 else x[0] for x in bl.ranking]) for bl in p.ballotLinesEqual]
                    exp_strict = [(m, r) for m, r in exp if not any(isinstance(x, tuple) for x in r)]
                    exp_equal = [(m, [tuple(x) if isinstance(x, tuple) else x for x in r]) for m, r in exp if any(isinstance(x, tuple) for x in r)]
                    norm = lambda L: [(m, [tuple(x) if isinstance(x, (tuple, list)) else x for x in r]) for m, r in L]     # noqa
                    if norm(strict) != norm(exp_strict) or norm(equal) != norm(exp_equal):
                        prob.append('ballots %r / %r' % (strict, equal))
                    if p.nBallots != total:
                        prob.append('ballot total %d != %d' % (p.nBallots, total))
                    prob += profile_invariants(p)
                    if prob:
                        res.violation('parsed election differs from the one written: %s' % '; '.join(str(x) for x in prob[:3]), {'text': text, 'layout': layout})


def check_C18(res):
    res.rule = ('small counts of all rules: record begins with begin/count and ends with end; every elect/defeat action names a candidate whose '
                'status changes at that action and every change is listed; final step == E.elected/E.defeated; report, dump and JSON are '
                'parsed back and compared with the record on status, tally, quota; JSON loads; dump rows have the header width; '
                'distinct = (rule, tags)')

    def per(E, data, rule, opts, p, exc=None):
        if exc is not None:
            return
        rec = E.record()
        acts = rec['actions']
        sb = [a for a in acts if a['tag'] not in ('log', 'round')]
        first = [a for a in acts if a['tag'] != 'log'][0]
        want_first = ('round',) if rule == 'mpls' else ('begin',)
        if first['tag'] not in want_first or acts[-1]['tag'] != 'end':
            res.violation('record starts with %s and ends with %s (%s)' % (first['tag'], acts[-1]['tag'], rule), H.wit(data, rule, opts))
        names = rec['cdict']
        prev = None
        for a in acts:
            if 'cstate' not in a:
                continue
            if prev is not None:
                changed = [cid for cid, c in a['cstate'].items() if prev[cid]['state'] != c['state']]
                if a['tag'] in ('elect', 'defeat'):
                    nm = a['msg'].rsplit(': ', 1)[-1]
                    named = [cid for cid, d in names.items() if d['name'] == nm]
                    want = 'elected' if a['tag'] == 'elect' else 'defeated'
                    if len(named) > 1:
                        # namesakes: the one whose status changes is the one meant (else any of them in the right state,
                        # for the re-elections that cfer's 'Elect pending' and QPQ's restart produce)
                        if len(changed) == 1 and changed[0] in named:
                            named = changed
                        else:
                            named = [c_ for c_ in named if a['cstate'][c_]['state'] == want][:1]
                    if len(named) != 1 or a['cstate'][named[0]]['state'] != want:
                        res.violation('%s action does not name a candidate that is %s (%s: %s)' % (a['tag'], want, rule, a['msg']), H.wit(data, rule, opts))
                    elif rule == 'qpq' and a['tag'] == 'elect' and \
                            [c_ for c_ in changed if not (prev[c_]['state'] == 'elected' and a['cstate'][c_]['state'] == 'hopeful')] in ([], named):
                        pass        # QPQ restart: silent un-elections and re-elections are the exception C09 grants
                    elif changed != named and not (rule in ('cfer', 'cfer-batch') and a['msg'].startswith('Elect pending')):
                        res.violation('%s action %r but statuses changing at this step are %s (%s)' % (a['tag'], a['msg'], changed, rule), H.wit(data, rule, opts))
                elif changed and not (rule == 'qpq' and a['tag'] == 'round'):
                    if not (rule == 'qpq'):
                        res.violation('status of %s changes at a %s action (%s)' % (changed, a['tag'], rule), H.wit(data, rule, opts))
            prev = a['cstate']
        last = acts[-1]['cstate']
        if sorted(c.cid for c in E.elected) != sorted(cid for cid, c in last.items() if c['state'] == 'elected') or \
                sorted(c.cid for c in E.defeated) != sorted(cid for cid, c in last.items() if c['state'] == 'defeated'):
            res.violation('final step differs from E.elected / E.defeated (%s)' % rule, H.wit(data, rule, opts))
        # JSON
        try:
            js = json.loads(E.json())
        except Exception as e:      # noqa
            res.violation('JSON rendering is not valid JSON: %s (%s)' % (type(e).__name__, rule), H.wit(data, rule, opts))
            return
        if len(js['actions']) != len(acts):
            res.violation('JSON has %d actions, record %d' % (len(js['actions']), len(acts)), H.wit(data, rule, opts))
        for ja, a in zip(js['actions'], acts):
            if ja['tag'] != a['tag'] or ja['msg'] != a['msg']:
                res.violation('JSON action differs from record action', H.wit(data, rule, opts))
                break
            if 'cstate' in a:
                for cid, c in a['cstate'].items():
                    jc = ja['cstate'][str(cid)]
                    if jc['state'] != c['state'] or ('vote' in c and jc.get('vote') != str(c['vote'])):
                        res.violation('JSON candidate state/tally differs from the record (%s)' % rule, H.wit(data, rule, opts))
                        break
                if str(a['quota']) != ja['quota']:
                    res.violation('JSON quota differs from the record', H.wit(data, rule, opts))
        # dump
        rows = [r.split('\t') for r in E.dump().rstrip('\n').split('\n')]
        width = len(rows[0])
        ecids = rec['ecids']
        di = 1
        for a in acts:
            row = rows[di]
            di += 1
            if a['tag'] in ('round', 'log', 'iterate'):
                continue
            if len(row) != width:
                res.violation('dump row for %s has %d columns, header %d (%s)' % (a['tag'], len(row), width, rule), H.wit(data, rule, opts))
                continue
            if row[2] != str(a['quota']):
                res.violation('dump quota differs from the record (%s)' % rule, H.wit(data, rule, opts))
            hdr = rows[0]
            for cid in ecids:
                j = hdr.index('%s.state' % cid)
                code = a['cstate'][cid]['code']
                if row[j] != code:
                    res.violation('dump status of %s is %s, record %s (%s)' % (cid, row[j], code, rule), H.wit(data, rule, opts))
                if rule != 'qpq':
                    jv = hdr.index('%s.vote' % cid)
                    if row[jv] != str(a['cstate'][cid]['vote']):
                        res.violation('dump tally differs from the record (%s)' % rule, H.wit(data, rule, opts))
        if di != len(rows):
            res.violation('dump has %d rows for %d actions' % (len(rows) - 1, len(acts)), H.wit(data, rule, opts))
        # report: every 'Elected/Hopeful/Defeated/Pending: name (tally)' line agrees with the record, in order
        rep = E.report()
        unique_names = len({d['name'] for d in names.values()}) == len(names)
        if rule != 'qpq' and unique_names:
            blocks = rep.split('Action: ')[1:]
            sba = [a for a in acts if a['tag'] not in ('log', 'round')]
            if len(blocks) != len(sba):
                res.violation('report has %d action blocks, record %d state-bearing actions (%s)' % (len(blocks), len(sba), rule), H.wit(data, rule, opts))
            else:
                for blk, a in zip(blocks, sba):
                    if not blk.startswith(a['msg']):
                        res.violation('report action text differs from record (%s)' % rule, H.wit(data, rule, opts))
                        break
                    if a['tag'] in ('begin', 'count', 'elect', 'defeat', 'transfer', 'end', 'iterate'):
                        for line in blk.split('\n'):
                            line = line.strip()
                            # the totals printed with the step are the recorded ones
                            for lab, key in (('Surplus:', 'surplus'), ('Residual:', 'residual'), ('Votes:', 'votes'),
                                             (E.rule.quota_name + ':', 'quota')):
                                if line.startswith(lab) and a.get(key) is not None and line[len(lab):].strip() != str(a[key]):
                                    res.violation('report line %r disagrees with the recorded %s %s (%s %s)' % (line, key, a[key], rule, opts),
                                                  H.wit(data, rule, opts))
                            for lab, stt in (('Elected:', 'elected'), ('Pending:', 'elected'), ('Hopeful:', 'hopeful')):
                                if line.startswith(lab):
                                    nm, tal = line[len(lab):].strip().rsplit(' (', 1)
                                    tal = tal.rstrip(')')
                                    cids = [cid for cid, d in names.items() if d['name'] == nm]
                                    if len(cids) != 1 or a['cstate'][cids[0]]['state'] != stt or str(a['cstate'][cids[0]]['vote']) != tal:
                                        res.violation('report line %r disagrees with the record (%s)' % (line, rule), H.wit(data, rule, opts))
    H.run_counts(res, H.RULES, res.tier, res.seed, per, with_withdrawn=True, grid=True, time_budget=18 if res.tier == 'quick' else 500)
    # equal rankings under fixed-point Meek/Warren: the corner where truncation leaves the total surplus a hair below zero
    H.run_extra(res, H.eq_profiles(res.tier, res.seed), ['meek', 'warren'], per, 8 if res.tier == 'quick' else 200,
                opts_list=({'arithmetic': 'fixed', 'precision': 6},))

    def namesakes(p):
        n = p['ncand']
        p['names'] = ['"Smith"' if i <= 2 else '"Jones"' if i <= 4 else '"c%d"' % i for i in range(1, n + 1)]
        return p
    H.run_counts(res, H.RULES, res.tier, res.seed + 3, per, with_withdrawn=True, grid=False, mutate=namesakes,
                 time_budget=10 if res.tier == 'quick' else 300)


def check_C19(res):
    res.rule = ('KeyboardInterrupt raised (sys.settrace) at the k-th line event inside droop code during E.count(), for the first visit of every executed source line plus a sample of the other line events (thorough: every k) '
                'of small counts of all rules; then report(True), dump(True), json(True) must succeed, carry the interruption marker and '
                'their actions must be a prefix of the uninterrupted record; distinct = (rule, interruption point)')
    rng = random.Random(res.seed)
    profs = H.small_profiles('quick', res.seed, False, False)
    rng.shuffle(profs)
    budget = 30 if res.tier == 'quick' else 900
    t0 = time.time()
    step = 3 if res.tier == 'quick' else 1
    covered = set()

    for p in profs:
        data = H.pdata(p)
        for rule in H.RULES:
            if time.time() - t0 > budget:
                return
            try:
                full = H.counted(data, rule, {})
            except Exception:
                continue
            ref = [(a['tag'], a['msg']) for a in full.erecord['actions']]
            # count line events, remembering which source line each one is
            events = []

            def counter(frame, event, arg):
                if 'droop' in frame.f_code.co_filename:
                    if event == 'line':
                        events.append((frame.f_code.co_filename, frame.f_lineno))
                    return counter
                return None
            E = H.make(data, rule, {})
            sys.settrace(counter)
            try:
                E.count()
            finally:
                sys.settrace(None)
            n = len(events)
            # interruption points: the first time each source line not yet interrupted anywhere is reached (so every
            # executed line of the package is interrupted at least once over the run), plus a sample of the others
            ks = []
            for k, ev in enumerate(events):
                if ev not in covered:
                    covered.add(ev)
                    ks.append(k)
            rest = [k for k in range(0, n, step) if k not in set(ks)]
            ks += rng.sample(rest, min(len(rest), 25 if res.tier == 'quick' else len(rest)))
            for k in sorted(ks):
                if time.time() - t0 > budget:
                    return
                seen = [0]
                fired = [False]

                def tracer(frame, event, arg):
                    if 'droop' in frame.f_code.co_filename:
                        if event == 'line':
                            seen[0] += 1
                            if seen[0] > k and not fired[0]:
                                fired[0] = True
                                raise KeyboardInterrupt()
                        return tracer
                    return None
                E = H.make(data, rule, {})
                interrupted = False
                died = None
                sys.settrace(tracer)
                try:
                    E.count()
                except KeyboardInterrupt:
                    interrupted = True
                except BaseException as e:      # noqa
                    died = e
                finally:
                    sys.settrace(None)
                if not fired[0]:
                    continue
                if died is not None:
                    res.violation('an interrupt at line event %d (%s:%d) makes the count die with %s instead of KeyboardInterrupt (%s)' % (
                        k, os.path.basename(events[k][0]), events[k][1], type(died).__name__, rule), H.wit(data, rule, {}, {'interrupt_at': k}))
                    continue
                if not interrupted:
                    res.violation('an interrupt at line event %d (%s:%d) is swallowed: the count runs on (%s)' % (
                        k, os.path.basename(events[k][0]), events[k][1], rule), H.wit(data, rule, {}, {'interrupt_at': k}))
                    continue
                res.evaluations += 1
                res.sig((rule, k))
                try:
                    rep = E.report(True)
                    dmp = E.dump(True)
                    js = E.json(True)
                    json.loads(js)
                except BaseException as e:      # noqa
                    res.violation('rendering an interrupted count fails with %s (%s, interrupted at line event %d)' % (type(e).__name__, rule, k),
                                  H.wit(data, rule, {}, {'interrupt_at': k}))
                    continue
                got = [(a['tag'], a['msg']) for a in E.erecord['actions']]
                marker = [g for g in got if 'count interrupted' in g[1]]
                if len(marker) != 1 or 'terminated prematurely' not in rep:
                    res.violation('interrupted renderings are not marked exactly once (%s, k=%d)' % (rule, k), H.wit(data, rule, {}, {'interrupt_at': k}))
                body = [g for g in got if 'count interrupted' not in g[1]]
                if body != ref[:len(body)]:
                    res.violation('interrupted record is not a prefix of the full record (%s, k=%d)' % (rule, k), H.wit(data, rule, {}, {'interrupt_at': k}))


def check_C01x(res):
    "C01 with Minneapolis undeclared write-ins"
    H.check_C01(res)

    def per(E, data, rule, opts, p, exc=None):
        if exc is not None:
            res.violation('count raised AssertionError (postCheck): mpls with undeclared write-ins %s' % list(p['undeclared']), H.wit(data, rule, opts))
            return
        elig = [c for c in E.C if c.state != 'withdrawn' and not c.isUndeclared]
        want = min(E.nSeats, len(elig))
        ne = len([c for c in E.C if c.state == 'elected'])
        if ne != want:
            res.violation('mpls with write-ins: %d winners, expected %d' % (ne, want), H.wit(data, rule, opts))
    H.run_counts(res, ['mpls'], res.tier, res.seed + 7, per, with_withdrawn=False, with_undeclared=True, grid=False, time_budget=10)


def check_C14(res):
    res.rule = ('str() of values on a grid: all three arithmetics x precision/guard/display settings x stored values (zero, +-1 unit, '
                'rounding ties, carries into the next integer, negatives, huge): the text parsed as a decimal numeral must equal the exact '
                'value rounded half-up at the display digits; printing leaves the value unchanged; distinct = (class, settings, value)')
    import math
    from fractions import Fraction
    from droop.options import Options
    from droop.values.fixed import Fixed
    from droop.values.guarded import Guarded
    from droop.values.rational import Rational
    rng = random.Random(res.seed)

    def parse(t):
        t2 = t.replace('_', '')
        neg = t2.startswith('-')
        if neg:
            t2 = t2[1:]
        a, _, b = t2.partition('.')
        if not a.isdigit() or (b and not b.isdigit()):
            return None
        v = Fraction(int(a)) + (Fraction(int(b), 10 ** len(b)) if b else 0)
        return -v if neg else v

    def half_up(x, d):
        return Fraction(math.floor(x * 10 ** d + Fraction(1, 2)), 10 ** d)

    def values(S, dd):
        base = [0, 1, -1, S, -S, S - 1, S + 1, -S - 1, 5 * S // 10, -5 * S // 10, 10 ** 30 + 7, -(10 ** 30) - 7]
        for k in (1, 3, 12, 125, 995, 9995):
            base += [k * max(dd, 1) // 2, -k * max(dd, 1) // 2, k * max(dd, 1) // 2 + 1, k * max(dd, 1) // 2 - 1]
        base += [rng.randint(-10 ** 12, 10 ** 12) for _ in range(30)]
        return base
    for p_ in (0, 1, 2, 3, 4, 6, 9):
        for d in range(0, p_ + 1):
            Fixed.initialize(Options({'arithmetic': 'fixed', 'precision': p_, 'display': d}))
            S = 10 ** p_
            for v in values(S, 10 ** (p_ - d)):
                x = Fixed(v, True)
                t = str(x)
                res.evaluations += 1
                res.sig(('F', p_, d, v))
                got = parse(t)
                if got is None or got != half_up(Fraction(v, S), Fixed.display) or x._value != v:
                    res.violation('Fixed(p=%d,d=%d) stored %d prints %r; exact %s, half-up %s' % (p_, d, v, t, Fraction(v, S), half_up(Fraction(v, S), Fixed.display)),
                                  {'class': 'Fixed', 'precision': p_, 'display': d, 'value': v})
    for p_, g in ((0, 0), (2, 0), (2, 2), (3, 1), (4, 4), (6, 3)):
        for d in range(0, p_ + g + 1):
            Guarded.initialize(Options({'arithmetic': 'guarded', 'precision': p_, 'guard': g, 'display': d}))
            S = 10 ** (p_ + g)
            for v in values(S, 10 ** (p_ + g - d)):
                x = Guarded(v, True)
                t = str(x)
                res.evaluations += 1
                res.sig(('G', p_, g, d, v))
                got = parse(t)
                und = ('_' in t) == (Guarded.display > Guarded.precision)
                if got is None or got != half_up(Fraction(v, S), Guarded.display) or x._value != v or not und:
                    res.violation('Guarded(p=%d,g=%d,d=%d) stored %d prints %r; exact %s' % (p_, g, d, v, t, Fraction(v, S)),
                                  {'class': 'Guarded', 'precision': p_, 'guard': g, 'display': d, 'value': v})
    def adversarial(d):
        "long fractions, huge magnitudes, values a hair from a rounding boundary (numerator, denominator)"
        out = []
        for big in (3 ** 200, 7 ** 150, 2 ** 300 + 1, 10 ** 60 + 3):
            out += [(1, big), (-1, big), (10 ** 40 * big + 1, big), (-(10 ** 40) * big - 1, big), (10 ** 31 * big + big // 3, big)]
            half = Fraction(1, 2 * 10 ** d)
            for eps in (Fraction(1, big), -Fraction(1, big), Fraction(0)):
                for base in (Fraction(0), Fraction(3), Fraction(-7), Fraction(10 ** 25)):
                    x_ = base + half + eps
                    out.append((x_.numerator, x_.denominator))
        return out
    for d in (0, 1, 3, 12):
        Rational.initialize(Options({'arithmetic': 'rational', 'display': d}))
        for n, m in [(0, 1), (1, 3), (-1, 3), (2, 3), (-2, 3), (1, 2), (-1, 2), (1, 8), (-1, 8), (5, 1000), (-5, 1000), (999, 1000), (-999, 1000),
                     (10 ** 20 + 1, 3)] + [(rng.randint(-10 ** 6, 10 ** 6), rng.randint(1, 10 ** 4)) for _ in range(40)] + adversarial(d):
            x = Rational(n, m)
            t = str(x)
            res.evaluations += 1
            res.sig(('R', d, n, m))
            got = parse(t)
            if got is None or got != half_up(Fraction(n, m), d):
                res.violation('Rational(%d/%d) at %d digits prints %r; half-up %s' % (n, m, d, t, half_up(Fraction(n, m), d)),
                              {'class': 'Rational', 'display': d, 'value': [n, m]})


def check_C12(res):
    res.rule = ('Fixed operations on a grid of operands (all signs, zero, ints and values, precisions 0..9, round up/down) against exact '
                'Fraction arithmetic; Rational exact; distinct = (op, precision, operands)')
    import math
    from fractions import Fraction
    from droop.options import Options
    from droop.values.fixed import Fixed
    rng = random.Random(res.seed)
    for p_ in (0, 1, 3, 9):
        Fixed.initialize(Options({'arithmetic': 'fixed', 'precision': p_}))
        S = 10 ** p_
        raw = [0, 1, -1, 2, -2, 3, 7, -7, S, -S, 3 * S + 1, -3 * S - 1, 10 ** 15 + 3] + [rng.randint(-10 ** 7, 10 ** 7) for _ in range(12)]
        ops = [Fixed(v, True) for v in raw] + [0, 1, -1, 2, -3, 17]

        def val(x):
            return Fraction(x) if isinstance(x, int) else Fraction(x._value, S)
        for a in ops:
            for b in ops:
                for rnd in ('up', 'down'):
                    for name, fn, ex_ in (('mul', lambda: Fixed.mul(a, b, round=rnd), lambda: val(a) * val(b)),
                                          ('div', lambda: Fixed.div(a, b, round=rnd), lambda: val(a) / val(b) if val(b) != 0 else None)):
                        want = ex_()
                        if want is None:
                            continue
                        r = fn()
                        res.evaluations += 1
                        res.sig((name, p_, str(a), str(b), rnd))
                        exp = math.ceil(want * S) if rnd == 'up' else math.floor(want * S)
                        if r._value != exp or not isinstance(r, Fixed):
                            res.violation('Fixed.%s(%r, %r, round=%s) at precision %d stores %d, exact %s' % (name, a, b, rnd, p_, r._value, want * S),
                                          {'op': name, 'a': repr(a), 'b': repr(b), 'round': rnd, 'precision': p_})
                if not isinstance(a, int):
                    for name, fn, want in (('+', lambda: a + b, val(a) + val(b)), ('-', lambda: a - b, val(a) - val(b)), ('*', lambda: a * b, val(a) * val(b))):
                        r = fn()
                        res.evaluations += 1
                        exp = math.floor(want * S)
                        if r._value != exp:
                            res.violation('Fixed %r %s %r at precision %d stores %d, exact %s' % (a, name, b, p_, r._value, want * S),
                                          {'op': name, 'a': repr(a), 'b': repr(b), 'precision': p_})
                    if val(b) != 0:
                        r = a / b
                        res.evaluations += 1
                        if r._value != math.floor(val(a) / val(b) * S):
                            res.violation('Fixed %r / %r at precision %d stores %d' % (a, b, p_, r._value), {'op': '/', 'a': repr(a), 'b': repr(b), 'precision': p_})
                    if not isinstance(b, int):
                        for nm, got, want in (('<', a < b, val(a) < val(b)), ('==', a == b, val(a) == val(b)), ('>=', a >= b, val(a) >= val(b))):
                            if got != want:
                                res.violation('Fixed comparison %r %s %r is %s' % (a, nm, b, got), {'op': nm, 'a': repr(a), 'b': repr(b), 'precision': p_})
    _min_checks(res)


def _min_checks(res):
    "V.min(list) returns the exact minimum for Fixed and Rational (C12: comparisons are exact there), on near-equal values too"
    from fractions import Fraction
    from droop.options import Options
    from droop.values.fixed import Fixed
    from droop.values.rational import Rational
    rng = random.Random(res.seed + 11)
    Rational.initialize(Options({'arithmetic': 'rational'}))
    lists = []
    for _ in range(60):
        base = Fraction(rng.randint(-5, 50), rng.randint(1, 9))
        tiny = Fraction(1, 10 ** rng.choice([3, 17, 20, 40]))
        lists.append([base + tiny * rng.randint(0, 3) for _ in range(rng.randint(2, 5))])
    lists.append([Fraction(1) + Fraction(1, 10 ** 20), Fraction(1)])
    lists.append([Fraction(10 ** 400), Fraction(10 ** 400) - 1])
    for L in lists:
        vals = [Rational(x.numerator, x.denominator) for x in L]
        try:
            m = Rational.min(vals)
        except Exception as e:      # noqa
            res.violation('Rational.min raised %s' % type(e).__name__, {'op': 'min', 'values': [str(x) for x in L]})
            continue
        res.evaluations += 1
        if Fraction(m) != min(L):
            res.violation('Rational.min%s returns %s, the exact minimum is %s' % ([str(x) for x in L], Fraction(m), min(L)), {'op': 'min', 'values': [str(x) for x in L]})
    for p_ in (0, 2, 9):
        Fixed.initialize(Options({'arithmetic': 'fixed', 'precision': p_}))
        for _ in range(40):
            raw = [rng.randint(-10 ** 6, 10 ** 6) + rng.choice([0, 10 ** 18]) for _ in range(rng.randint(2, 5))]
            m = Fixed.min([Fixed(v, True) for v in raw])
            res.evaluations += 1
            if m._value != min(raw):
                res.violation('Fixed.min of stored %s returns %d' % (raw, m._value), {'op': 'min', 'values': raw, 'precision': p_})


def check_C03(res):
    res.rule = ('wigm configured as arithmetic=fixed precision=4 must give the history of wigm-prf on every profile of the domain (the parametric '
                'rule with a reference rule\'s parameters yields that rule\'s history); Scottish ties on a tie-rich domain against an independent '
                'reading of 49(2)(3)/51(2); Minneapolis / CfER / PRF sure-loser batches against the clause (tallies + surplus + write-in votes of the round '
                '< next tally); distinct = tag sequences')

    def per(E, data, rule, opts, p, exc=None):
        if exc is not None:
            return
        try:
            E2 = H.counted(data, 'wigm', {'arithmetic': 'fixed', 'precision': 4})
        except Exception as e:      # noqa
            res.violation('wigm fixed p4 fails where wigm-prf counts: %s' % type(e).__name__, H.wit(data, 'wigm', {'arithmetic': 'fixed', 'precision': 4}))
            return
        res.evaluations += 1
        a = [(x['tag'], x['msg'], str(x.get('quota')), sorted((k, v['state'], str(v.get('vote'))) for k, v in x['cstate'].items()) if 'cstate' in x else None)
             for x in E.erecord['actions'] if not x['msg'].startswith('Add ')]
        b = [(x['tag'], x['msg'], str(x.get('quota')), sorted((k, v['state'], str(v.get('vote'))) for k, v in x['cstate'].items()) if 'cstate' in x else None)
             for x in E2.erecord['actions'] if not x['msg'].startswith('Add ')]
        if a != b:
            res.violation('wigm with fixed precision 4 does not reproduce the wigm-prf history', H.wit(data, 'wigm-prf', {}))
    H.run_counts(res, ['wigm-prf'], res.tier, res.seed, per, with_withdrawn=True, grid=False, time_budget=10 if res.tier == 'quick' else 300)
    # Scottish order 49(2)(3) / 51(2): tie procedure against an independent reading of the clause
    ties = H.scottish_ties_factory(res)
    t0 = time.time()
    for p in H.tie_rich_profiles('thorough', res.seed):
        if time.time() - t0 > (15 if res.tier == 'quick' else 300):
            break
        data = H.pdata(p)
        try:
            E = H.counted(data, 'scotland', {})
        except Exception:
            continue
        res.evaluations += 1
        res.sig(('scotland', H.action_sig(E)))
        ties(E, data, 'scotland', {}, p)
    # Minneapolis 167.20 / 167.70(c)(1)c: a batch of certain losers against an independent reading of the clause (their tallies plus
    # every vote that could still reach them - surplus and the write-in votes of that round - stay below the next candidate)
    sure = H.sure_losers_factory(res)

    def per_mpls(E, data, rule, opts, p, exc=None):
        if exc is None:
            sure(E, data, rule, opts)
    H.run_counts(res, ['mpls'], res.tier, res.seed + 7, per_mpls, with_withdrawn=True, with_undeclared=True, grid=False,
                 time_budget=6 if res.tier == 'quick' else 120)
    H.run_extra(res, H.batch_profiles(res.tier, res.seed), ['mpls', 'cfer-batch', 'wigm-prf-batch'], per_mpls,
                6 if res.tier == 'quick' else 200, opts_list=({},))


CHECKS = {'C14': check_C14, 'C12': check_C12, 'C03': check_C03, 'C15': check_C15, 'C16': check_C16, 'C18': check_C18, 'C19': check_C19}
