#!/venv/bin/python
"""
Bounded stand-ins (DESIGN section 7): the contracts' content as run-time monitors on the REAL code over
exhaustively enumerated small profiles plus seeded random ones.  Results are labelled `bounded` in the
evidence and are never counted as proved.  Runs under /venv/bin/python with PYTHONPATH=<repo>.

usage: harness.py --prop C01 --tier quick|thorough --seed N --out result.json [--replay-dir DIR]
"""
import argparse
import itertools
import json
import os
import random
import signal
import sys
import time
from fractions import Fraction

REPO = os.environ.get('DROOP_REPO', '/repo')
sys.path.insert(0, REPO)

import droop                                            # noqa
from droop.profile import ElectionProfile, ElectionProfileError     # noqa
from droop.election import Election                     # noqa
from droop.candidate import Candidate                   # noqa
from droop import values as V_                          # noqa
from droop.common import UsageError, ElectionError      # noqa

RULES = ['wigm', 'wigm-prf', 'wigm-prf-batch', 'cfer', 'cfer-batch', 'scotland', 'mpls', 'meek', 'warren', 'meek-prf', 'qpq']
WIGM_FAMILY = ['wigm', 'wigm-prf', 'wigm-prf-batch', 'cfer', 'cfer-batch', 'scotland', 'mpls']
MEEK_FAMILY = ['meek', 'warren', 'meek-prf']
STATUTORY = ['wigm-prf', 'wigm-prf-batch', 'cfer', 'cfer-batch', 'scotland', 'mpls', 'meek-prf', 'qpq']


class Timeout(Exception):
    pass


def _alarm(signum, frame):
    raise Timeout()


signal.signal(signal.SIGALRM, _alarm)
Election.prog = staticmethod(lambda msg: None)      # silence the console progress dots of exact arithmetic


# ------------------------------------------------------------------------------------------ profiles
def blt(ncand, nseats, lines, withdrawn=(), undeclared=(), tie=None, names=None, title='t', options=None):
    "render an election structure as BLT text; lines = [(multiplier, ranking)] ranking = list of cid or tuple(equal)"
    out = ['%d %d' % (ncand, nseats)]
    if options:
        out.append('[droop %s]' % ' '.join(options))
    if tie:
        out.append('[tie %s]' % ' '.join(str(c) for c in tie))
    if undeclared:
        out.append('[undeclared %s]' % ' '.join(str(c) for c in undeclared))
    for w in withdrawn:
        out.append('-%d' % w)
    for m, r in lines:
        toks = []
        for x in r:
            toks.append('='.join(str(c) for c in x) if isinstance(x, tuple) else str(x))
        out.append('%d %s 0' % (m, ' '.join(toks)))
    out.append('0')
    names = names or ['"c%d"' % i for i in range(1, ncand + 1)]
    out.extend(names)
    out.append('"%s"' % title)
    return '\n'.join(out) + '\n'


def maprank(r, f, keep=None):
    "apply f to every candidate id of a ranking (equal-rank groups are tuples); drop ids not in keep, and emptied groups"
    out = []
    for x in r:
        if isinstance(x, tuple):
            g = tuple(f(c) for c in x if keep is None or c in keep)
            if len(g) == 1:
                out.append(g[0])
            elif g:
                out.append(g)
        elif keep is None or x in keep:
            out.append(f(x))
    return out


def partial_rankings(n):
    "all strict partial rankings (non-empty) over 1..n"
    res = []
    for k in range(1, n + 1):
        for p in itertools.permutations(range(1, n + 1), k):
            res.append(list(p))
    return res


def small_profiles(tier, seed, with_withdrawn=False, with_undeclared=False, max_n=None):
    """exhaustive tiny domain + seeded random domain: yields dicts(ncand, nseats, lines, withdrawn, undeclared, tie)"""
    rng = random.Random(seed)
    out = []
    # exhaustive: 2..3 candidates, 1..2 distinct lines from all strict partial rankings, multipliers 1..2, padded so that
    # nBallots >= ncand
    nmax = 3 if tier == 'quick' else 3
    for n in range(2, nmax + 1):
        ranks = partial_rankings(n)
        for s in range(1, n + 1):
            combos = list(itertools.combinations(ranks, 2)) if n <= 2 or tier != 'quick' else \
                rng.sample(list(itertools.combinations(ranks, 2)), 40)
            for r1, r2 in combos:
                for m1, m2 in ((1, 2), (2, 2), (3, 1)):
                    lines = [(m1, r1), (m2, r2)]
                    if m1 + m2 < n:
                        continue
                    out.append(dict(ncand=n, nseats=s, lines=lines, withdrawn=(), undeclared=(), tie=None))
    # random domain
    nrand = 400 if tier == 'quick' else 4000
    for _ in range(nrand):
        n = rng.randint(2, max_n or (5 if tier == 'quick' else 7))
        s = rng.randint(1, n)
        nl = rng.randint(1, 6 if tier == 'quick' else 12)
        lines = []
        for _i in range(nl):
            k = rng.randint(1, n)
            r = rng.sample(range(1, n + 1), k)
            lines.append((rng.choice([1, 1, 2, 3, 5, 10, 50]), r))
        wd = ()
        und = ()
        if with_withdrawn and n >= 3 and rng.random() < 0.5:
            wd = tuple(rng.sample(range(1, n + 1), rng.randint(1, n - 2)))
        if with_undeclared and n >= 3 and rng.random() < 0.5:
            und = tuple(c for c in rng.sample(range(1, n + 1), rng.randint(1, n - 2)) if c not in wd or rng.random() < 0.3)
        tie = None
        if rng.random() < 0.4:
            tie = list(range(1, n + 1))
            rng.shuffle(tie)
        elig = n - len(wd)
        if s > elig:
            s = max(1, elig)
        tot = sum(m for m, r in lines if any(c not in wd for c in r))
        if tot < elig:
            lines.append((elig, [c for c in range(1, n + 1) if c not in wd][:1]))
        out.append(dict(ncand=n, nseats=s, lines=lines, withdrawn=wd, undeclared=und, tie=tie))
    return out


def tie_rich_profiles(tier, seed):
    "few ballots, equal multipliers, 4-6 candidates: many exact ties whose order flips between stages"
    rng = random.Random(seed * 31 + 5)
    out = []
    for _ in range(250 if tier == 'quick' else 3000):
        n = rng.randint(4, 6)
        s = rng.randint(1, 3)
        lines = []
        for _i in range(rng.randint(n, 2 * n + 2)):
            k = rng.randint(1, min(4, n))
            lines.append((rng.choice([1, 1, 1, 2]), rng.sample(range(1, n + 1), k)))
        tie = list(range(1, n + 1))
        rng.shuffle(tie)
        tot = sum(m for m, _ in lines)
        if tot < n:
            lines.append((n, [1]))
        out.append(dict(ncand=n, nseats=min(s, n), lines=lines, withdrawn=(), undeclared=(), tie=tie))
    return out


def batch_profiles(tier, seed):
    "more candidates and seats, skewed multipliers, many short ballots: pending surpluses next to sure losers"
    rng = random.Random(seed * 17 + 3)
    out = []
    for _ in range(1200 if tier == 'quick' else 20000):
        n = rng.randint(5, 8)
        s = rng.randint(2, n - 1)
        lines = []
        for _i in range(rng.randint(n, 2 * n)):
            k = rng.choice([1, 1, 2, 2, 3])
            lines.append((rng.choice([1, 1, 2, 3, 8, 9, 28, 30]), rng.sample(range(1, n + 1), k)))
        tot = sum(m for m, _ in lines)
        if tot < n:
            lines.append((n, [1]))
        out.append(dict(ncand=n, nseats=s, lines=lines, withdrawn=(), undeclared=(), tie=None))
    return out


def eq_profiles(tier, seed):
    "profiles with equal rankings (read by meek / warren only)"
    rng = random.Random(seed * 13 + 1)
    out = []
    for _ in range(300 if tier == 'quick' else 5000):
        n = rng.randint(3, 5)
        s = rng.randint(1, n - 1)
        lines = []
        for _i in range(rng.randint(2, 6)):
            perm = rng.sample(range(1, n + 1), rng.randint(1, n))
            r = []
            i = 0
            while i < len(perm):
                g = rng.choice([1, 1, 2, 3])
                grp = perm[i:i + g]
                r.append(tuple(grp) if len(grp) > 1 else grp[0])
                i += g
            lines.append((rng.choice([1, 2, 3, 7]), r))
        tot = sum(m for m, _ in lines)
        if tot < n:
            lines.append((n, [1]))
        out.append(dict(ncand=n, nseats=s, lines=lines, withdrawn=(), undeclared=(), tie=None))
    return out


def run_extra(res, profiles, rules, per_count, budget, opts_list=({},), on_timeout=None):
    t0 = time.time()
    for p in profiles:
        if time.time() - t0 > budget:
            return
        data = pdata(p)
        for rule in rules:
            for opts in opts_list:
                try:
                    E = counted(data, rule, opts)
                except Timeout:
                    res.skipped += 1
                    if on_timeout is not None:
                        on_timeout(data, rule, opts)
                    continue
                except (ElectionProfileError, UsageError):
                    res.skipped += 1
                    continue
                except Exception as e:      # noqa
                    res.evaluations += 1
                    per_count(getattr(e, 'droop_E', None), data, rule, opts, p, exc=e)
                    continue
                res.evaluations += 1
                res.sig((rule, action_sig(E)))
                per_count(E, data, rule, opts, p)


def option_grid(rule, tier):
    if rule == 'wigm':
        g = [{}, {'arithmetic': 'fixed', 'precision': 4}, {'arithmetic': 'fixed', 'precision': 0},
             {'arithmetic': 'rational'}, {'arithmetic': 'guarded', 'precision': 6, 'guard': 6},
             {'integer_quota': True}, {'defeat_batch': 'zero'},
             {'integer_quota': True, 'arithmetic': 'fixed', 'precision': 2},    # a whole-number quota met exactly (>= test)
             {'arithmetic': 'fixed', 'precision': 6, 'display': 2},             # values that print alike differ
             {'arithmetic': 'integer'}, {'integer_quota': True, 'arithmetic': 'integer'}, {'arithmetic': 'rational', 'display': 2}]
        return g if tier != 'quick' else g[:9]
    if rule in ('meek', 'warren'):
        g = [{}, {'arithmetic': 'fixed', 'precision': 6}, {'arithmetic': 'guarded', 'precision': 6, 'guard': 4},
             {'arithmetic': 'fixed', 'precision': 6, 'omega': 2},      # a coarse omega: iterations end with a visible surplus
             {'defeat_batch': 'none'}, {'arithmetic': 'fixed', 'precision': 9, 'omega': 4}]
        return g if tier != 'quick' else g[:4]
    return [{}]


def make(data, rule, opts=None):
    o = {'rule': rule}
    o.update(opts or {})
    p = ElectionProfile(data=data)
    return Election(p, o)


def counted(data, rule, opts=None, budget=5):
    "count with a CPU-time watchdog; returns E or raises"
    E = make(data, rule, opts)
    signal.alarm(budget)
    try:
        E.count()
    except Exception as e:      # noqa  the partly counted election travels with the exception (monitors may read its record)
        e.droop_E = E
        raise
    finally:
        signal.alarm(0)
    return E


def pdata(p, **kw):
    d = dict(p)
    d.update(kw)
    return blt(d['ncand'], d['nseats'], d['lines'], d.get('withdrawn', ()), d.get('undeclared', ()), d.get('tie'), names=d.get('names'))


# ------------------------------------------------------------------------------------------ result bookkeeping
class Result:
    def __init__(self, prop, tier, seed, replay_dir):
        self.prop, self.tier, self.seed = prop, tier, seed
        self.replay_dir = replay_dir
        self.evaluations = 0
        self.signatures = set()
        self.samples = []
        self.violations = []
        self.skipped = 0
        self.rule = ''
        self.t0 = time.time()

    def sig(self, s):
        self.signatures.add(s)

    def sample(self, x):
        if len(self.samples) < 4:
            self.samples.append(x)

    def violation(self, what, witness):
        same = sum(1 for v in self.violations if v['what'].split('(')[0][-60:] == what.split('(')[0][-60:])
        if same >= 3 or len(self.violations) >= 30:
            return      # keep a few witnesses of each kind so that one kind cannot hide another
        os.makedirs(self.replay_dir, exist_ok=True)
        path = os.path.join(self.replay_dir, 'bounded_%s_%d.json' % (self.prop, len(self.violations)))
        with open(path, 'w') as f:
            json.dump({'property': self.prop, 'what': what, 'witness': witness, 'family': 'bounded',
                       'how_to_replay': '/venv/bin/python bounded/harness.py --replay %s' % path}, f, indent=1, default=str)
        self.violations.append({'what': what, 'replay': path, 'witness': witness})

    def dump(self, out):
        doc = {'property': self.prop, 'tier': self.tier, 'seed': self.seed, 'evaluations': self.evaluations,
               'distinct_nontrivial': len(self.signatures), 'rule': self.rule, 'samples': self.samples,
               'violations': self.violations, 'skipped': self.skipped, 'wall_s': round(time.time() - self.t0, 2),
               'label': 'bounded'}
        with open(out, 'w') as f:
            json.dump(doc, f, indent=1, default=str)


def action_sig(E):
    return tuple(a['tag'] for a in E.erecord['actions'] if a['tag'] != 'log')


def tally_total(A):
    cs = A['cstate']
    return sum((c['vote'] for c in cs.values() if c['state'] != 'withdrawn'), 0 * A['quota'] if A['quota'] is not None else 0)


# ------------------------------------------------------------------------------------------ per-property monitors
def _P(ncand, nseats, lines, withdrawn=(), undeclared=(), tie=None):
    return dict(ncand=ncand, nseats=nseats, lines=lines, withdrawn=withdrawn, undeclared=undeclared, tie=tie)


# regression corpus: profiles on which a seeded or genuine defect once showed only in a rare corner (every monitor that
# drives run_counts sees them first, under the rule and options that matter)
CORPUS = [
    # fixed-point Meek with equal rankings: truncation leaves the total surplus a hair below zero
    (_P(5, 2, [(7, [(3, 1, 2), (5, 4)]), (7, [(4, 5, 1), 2]), (7, [5, (2, 4)])]), 'meek', {'arithmetic': 'fixed', 'precision': 6}),
    (_P(5, 2, [(7, [(3, 1, 2), (5, 4)]), (7, [(4, 5, 1), 2]), (7, [5, (2, 4)])]), 'warren', {'arithmetic': 'fixed', 'precision': 6}),
    # QPQ: an opening exclusion with nobody elected, then a tie for the largest quotient
    (_P(4, 2, [(4, [1]), (4, [2]), (3, [3]), (1, [4])]), 'qpq', {}),
    # a whole-number quota met exactly by seats+1 candidates
    (_P(4, 2, [(2, [1, 4]), (2, [2]), (2, [3])]), 'wigm', {'integer_quota': True, 'arithmetic': 'fixed', 'precision': 2}),
    # a sure-loser batch that would leave too few candidates (wigm-prf-batch), and a tally exactly on the Scottish quota
    (_P(5, 3, [(80, [1]), (10, [2]), (2, [3, 2]), (2, [4, 2])]), 'wigm-prf-batch', {}),
    (_P(4, 3, [(6, [1, 2]), (7, [2, 3]), (4, [3]), (3, [4, 3])]), 'scotland', {}),
    # Meek/Warren ending with the seats filled while two candidates are still hopeful
    (_P(5, 2, [(7, [1]), (6, [2]), (2, [3]), (2, [4]), (1, [5])]), 'meek', {}),
]


def run_corpus(res, rules, per_count):
    for p, rule, opts in CORPUS:
        if rule not in rules:
            continue
        data = pdata(p)
        try:
            E = counted(data, rule, opts)
        except Timeout:
            continue
        except (ElectionProfileError, UsageError):
            continue
        except Exception as e:      # noqa
            res.evaluations += 1
            per_count(getattr(e, 'droop_E', None), data, rule, opts, p, exc=e)
            continue
        res.evaluations += 1
        res.sig((rule, action_sig(E)))
        per_count(E, data, rule, opts, p)


def run_counts(res, rules, tier, seed, per_count, with_withdrawn=True, with_undeclared=False, grid=True, max_n=None,
               time_budget=None, mutate=None, on_timeout=None):
    "drive per_count(E, data, rule, opts, p) over the domain"
    if mutate is None:
        run_corpus(res, rules, per_count)
    profs = small_profiles(tier, seed, with_withdrawn, with_undeclared, max_n)
    if mutate is not None:
        profs = [mutate(dict(p)) for p in profs]
    budget = time_budget or (25 if tier == 'quick' else 600)
    t0 = time.time()
    rng = random.Random(seed + 1)
    order = list(profs)
    rng.shuffle(order)
    for p in order:
        data = pdata(p)
        for rule in rules:
            if p['undeclared'] and rule != 'mpls':
                continue
            for opts in (option_grid(rule, tier) if grid else [{}]):
                if time.time() - t0 > budget:
                    return
                if opts.get('arithmetic') == 'rational' and rule in MEEK_FAMILY:
                    continue
                try:
                    E = counted(data, rule, opts)
                except Timeout:
                    res.skipped += 1
                    if on_timeout is not None:
                        on_timeout(data, rule, opts)
                    continue
                except (ElectionProfileError, UsageError):
                    res.skipped += 1
                    continue
                except Exception as e:      # noqa  (AssertionError of postCheck, or any crash of the count)
                    res.evaluations += 1
                    per_count(getattr(e, 'droop_E', None), data, rule, opts, p, exc=e)
                    continue
                res.evaluations += 1
                res.sig((rule, action_sig(E)))
                per_count(E, data, rule, opts, p)


def wit(data, rule, opts, extra=None):
    w = {'blt': data, 'rule': rule, 'options': opts}
    if extra:
        w.update(extra)
    return w


def check_C01(res):
    res.rule = ('exhaustive 2-3 candidate profiles (pairs of strict partial rankings, multipliers 1-3) + seeded random '
                'profiles up to 5/7 candidates with withdrawn sets and tie orders, x 11 rules x option grid; distinct = '
                'distinct (rule, action-tag sequence)')

    def per(E, data, rule, opts, p, exc=None):
        if exc is not None:
            res.violation('count raised %s: %s %s' % (type(exc).__name__, rule, opts), wit(data, rule, opts))
            return
        elig = [c for c in E.C if c.state != 'withdrawn' and not (rule == 'mpls' and c.isUndeclared)]
        want = min(E.nSeats, len(elig))
        ne = len([c for c in E.C if c.state == 'elected'])
        if ne != want:
            res.violation('%d winners declared, expected min(seats, electable) = %d (%s %s)' % (ne, want, rule, opts), wit(data, rule, opts))
        for c in E.C:
            if c.cid in p['withdrawn']:
                if c.state != 'withdrawn' or (c.vote is not None and c.vote != E.V0):
                    res.violation('withdrawn candidate %s has state %s / votes %s' % (c.name, c.state, c.vote), wit(data, rule, opts))
            elif c.state not in ('elected', 'defeated'):
                res.violation('candidate %s left %s at the end of the count (%s)' % (c.name, c.state, rule), wit(data, rule, opts))

    def timed_out(data, rule, opts):
        # a small count that does not finish within the watchdog under a finite-precision arithmetic does not terminate for all
        # practical purposes (exact rationals under the Meek family are the property's own exception: never run here)
        if opts.get('arithmetic') != 'rational':
            res.violation('count does not finish within the %d s watchdog (%s %s)' % (5, rule, opts), wit(data, rule, opts))
    run_counts(res, RULES, res.tier, res.seed, per, with_undeclared=False, on_timeout=timed_out)
    # very large elections (multipliers of 10^3..10^7): where the last digit of a keep factor can stall the Meek iteration
    rngb = random.Random(res.seed * 3 + 2)
    big = []
    for p0 in small_profiles('quick', res.seed + 5, False, False)[:120 if res.tier == 'quick' else 2000]:
        q = dict(p0)
        q['lines'] = [(m * rngb.choice([10 ** 3, 4567, 10 ** 5, 333333, 10 ** 6, 7654321]) + rngb.randint(0, 9), r) for m, r in p0['lines']]
        big.append(q)
    run_extra(res, big, ['meek-prf', 'meek', 'warren'], per, 10 if res.tier == 'quick' else 200, opts_list=({},), on_timeout=timed_out)
    # Minneapolis with undeclared write-ins (and write-in slots that are also withdrawn)
    run_counts(res, ['mpls'], res.tier, res.seed + 7, per, with_withdrawn=True, with_undeclared=True, grid=False,
               time_budget=8 if res.tier == 'quick' else 120)
    run_extra(res, batch_profiles(res.tier, res.seed), ['wigm-prf-batch', 'cfer-batch', 'mpls', 'meek', 'wigm'], per,
              12 if res.tier == 'quick' else 400, opts_list=({},))
    run_extra(res, eq_profiles(res.tier, res.seed), ['meek', 'warren'], per, 6 if res.tier == 'quick' else 200,
              opts_list=({}, {'arithmetic': 'fixed', 'precision': 6}))
    # equal-ranking groups that contain withdrawn candidates (the parser must strip them from every group), all rules
    rngw = random.Random(res.seed * 7 + 5)
    wprofs = []
    for p0 in eq_profiles(res.tier, res.seed + 1)[:400 if res.tier == 'quick' else 4000]:
        k = rngw.randint(1, max(1, p0['ncand'] - 2))
        wd = tuple(sorted(rngw.sample(range(1, p0['ncand'] + 1), k)))
        if p0['nseats'] > p0['ncand'] - k:
            continue
        q = dict(p0)
        q['withdrawn'] = wd
        wprofs.append(q)
    run_extra(res, wprofs, RULES, per, 8 if res.tier == 'quick' else 300, opts_list=({},))


def check_C09(res):
    res.rule = 'same domain as C01; every pair of consecutive recorded actions is checked; distinct = (rule, tag sequence)'
    order = {'hopeful': 0, 'elected': 1, 'defeated': 1, 'withdrawn': 9}

    def per(E, data, rule, opts, p, exc=None):
        if exc is not None:
            res.violation('count raised %s: %s %s' % (type(exc).__name__, rule, opts), wit(data, rule, opts))
            return
        prev = None
        acts = [a for a in E.erecord['actions'] if 'cstate' in a]
        rnd = -1
        for a in E.erecord['actions']:
            if a['round'] < rnd:
                res.violation('round number decreases (%s)' % rule, wit(data, rule, opts))
            rnd = a['round']
        for a in acts:
            cs = a['cstate']
            ne = sum(1 for c in cs.values() if c['state'] == 'elected')
            nh = sum(1 for c in cs.values() if c['state'] == 'hopeful')
            if ne > E.nSeats:
                res.violation('%d elected for %d seats at action %s (%s %s)' % (ne, E.nSeats, a['tag'], rule, opts), wit(data, rule, opts))
            elig = sum(1 for cid, c in cs.items() if c['state'] != 'withdrawn' and not (rule == 'mpls' and cid in p['undeclared']))
            hop = sum(1 for cid, c in cs.items() if c['state'] == 'hopeful' and not (rule == 'mpls' and cid in p['undeclared']))
            if ne + hop < min(E.nSeats, elig):
                res.violation('exclusions leave %d elected+continuing for %d seats at action %s (%s %s)' % (ne + hop, E.nSeats, a['tag'], rule, opts),
                              wit(data, rule, opts))
            if prev is not None:
                for cid, c in cs.items():
                    o = prev[cid]['state']
                    n = c['state']
                    if o == n:
                        continue
                    okc = (o == 'hopeful' and n in ('elected', 'defeated')) or (rule == 'qpq' and o == 'elected' and n == 'hopeful')
                    if okc and n == 'hopeful':
                        # QPQ's restart: only in the round that follows an exclusion
                        if not any(b['tag'] == 'defeat' and b['round'] == a['round'] - 1 for b in E.erecord['actions']):
                            res.violation('candidate %s un-elected in round %d although nobody was excluded in round %d (qpq restart only after an exclusion)'
                                          % (cid, a['round'], a['round'] - 1), wit(data, rule, opts))
                    if not okc:
                        res.violation('status %s -> %s for candidate %s at action %s (%s)' % (o, n, cid, a['tag'], rule), wit(data, rule, opts))
            prev = cs
    run_counts(res, RULES, res.tier, res.seed, per)
    run_counts(res, ['mpls'], res.tier, res.seed + 7, per, with_withdrawn=True, with_undeclared=True, grid=False,
               time_budget=8 if res.tier == 'quick' else 120)
    run_extra(res, batch_profiles(res.tier, res.seed), ['wigm-prf-batch', 'cfer-batch', 'mpls', 'meek', 'wigm'], per,
              12 if res.tier == 'quick' else 400)
    # QPQ on tie-rich profiles: an un-election is visible in the history only through the tie actions of the replayed round
    run_extra(res, tie_rich_profiles(res.tier, res.seed), ['qpq'], per, 8 if res.tier == 'quick' else 200)


def units(E):
    V = E.V
    if V.name == 'rational':
        return None
    if V.name == 'guarded':
        return Fraction(1, 10 ** (V.precision + V.guard))
    return Fraction(1, 10 ** V.precision)


def fr(x):
    "exact Fraction of a droop value"
    if hasattr(x, '_value'):
        cls = type(x)
        p = cls.precision + (getattr(cls, 'guard', 0) or 0) if cls.__name__ == 'Guarded' else cls.precision
        return Fraction(x._value, 10 ** p)
    return Fraction(x)


def check_C02(res):
    res.rule = ('every recorded action of every count (strict rankings; equal rankings for meek/warren; wigm family, meek family, qpq): credited + '
                'non-transferable/residual <= N and >= N - 2 units x ballots x transfers so far; exact under rational; '
                'no negative tally; distinct = (rule, tag sequence)')

    def per(E, data, rule, opts, p, exc=None):
        if exc is not None:
            return
        N = Fraction(E.nBallots)
        u = units(E)
        nb = sum(1 for _ in E.ballots)
        transfers = 0
        for a in E.erecord['actions']:
            if 'cstate' not in a:
                continue
            if a['tag'] == 'transfer':
                transfers += 1
            cs = a['cstate']
            tallies = [fr(c['vote']) for c in cs.values() if c['state'] != 'withdrawn']
            if any(t < 0 for t in tallies):
                res.violation('negative tally at action %s (%s %s)' % (a['tag'], rule, opts), wit(data, rule, opts))
            if rule == 'qpq':
                continue
            if rule in WIGM_FAMILY:
                other = fr(a['nt_votes']) if a.get('nt_votes') is not None else Fraction(0)
            else:
                other = fr(a['residual']) if a.get('residual') is not None else Fraction(0)
                if rule == 'meek-prf' and a['tag'] in ('round', 'log') or (rule == 'meek-prf' and a['tag'] in ('defeat', 'elect', 'end')):
                    pass
            if other < 0:
                res.violation('negative non-transferable/residual at %s (%s)' % (a['tag'], rule), wit(data, rule, opts))
            tot = sum(tallies) + other
            if tot > N:
                res.violation('votes created: total %s > %s ballots at action %s/%s (%s %s)' % (tot, N, a['tag'], a['msg'], rule, opts), wit(data, rule, opts))
            if u is None:
                lo = N
            else:
                lo = N - 2 * u * N * transfers      # two units per ballot paper per surplus transfer so far
            if rule in MEEK_FAMILY:
                lo = N if rule != 'meek-prf' else None      # meek-prf snapshots after an exclusion are short by design (known finding)
            if lo is not None and tot < lo and rule in WIGM_FAMILY:
                res.violation('votes lost beyond rounding: total %s < %s at action %s (%s %s)' % (tot, lo, a['tag'], rule, opts), wit(data, rule, opts))
            if rule in ('meek', 'warren') and a['tag'] in ('iterate', 'end', 'defeat', 'elect') and lo is not None and tot != N:
                if True:    # every recorded step of a Meek/Warren count shows a complete distribution
                    res.violation('meek distribution does not conserve: %s != %s at %s (%s %s)' % (tot, N, a['tag'], rule, opts), wit(data, rule, opts))
    run_counts(res, RULES, res.tier, res.seed, per, with_withdrawn=False)
    # equal rankings are in scope for the parametric Meek/Warren rules (the only rules that read them)
    run_extra(res, eq_profiles(res.tier, res.seed), ['meek', 'warren'], per, 8 if res.tier == 'quick' else 200,
              opts_list=({}, {'arithmetic': 'fixed', 'precision': 6}, {'arithmetic': 'guarded', 'precision': 6, 'guard': 0}))


def check_C04(res):
    res.rule = 'quota value at begin/every action against the prescribed formula; holders of a quota are never excluded; distinct = (rule, tags)'

    def per(E, data, rule, opts, p, exc=None):
        if exc is not None:
            return
        N, s = E.nBallots, E.nSeats
        V = E.V
        u = units(E)
        begin = [a for a in E.erecord['actions'] if 'cstate' in a][:1]
        for a in begin:
            q = fr(a['quota'])
            if rule in ('scotland', 'mpls') or opts.get('integer_quota'):
                want = Fraction(N // (s + 1) + 1)
            elif rule == 'qpq':
                want = None
            elif V.name == 'rational':
                want = Fraction(N, s + 1)
            elif V.exact:       # guarded
                want = (Fraction(N, s + 1) // u) * u
            else:
                want = (Fraction(N, s + 1) // u) * u + u
            if want is not None and q != want and rule not in MEEK_FAMILY:
                res.violation('quota %s, prescribed %s (%s %s)' % (q, want, rule, opts), wit(data, rule, opts))
            if want is not None and rule in MEEK_FAMILY and q != want:
                res.violation('initial quota %s, prescribed %s (%s %s)' % (q, want, rule, opts), wit(data, rule, opts))
        # nobody holding a quota is excluded (wigm family; mpls undeclared excepted)
        prev = None
        for a in E.erecord['actions']:
            if 'cstate' not in a:
                continue
            if prev is not None and rule in WIGM_FAMILY and a['tag'] == 'defeat':
                for cid, c in a['cstate'].items():
                    if c['state'] == 'defeated' and prev['cstate'][cid]['state'] == 'hopeful':
                        if rule == 'mpls' and cid in p['undeclared']:
                            continue
                        v, q = fr(prev['cstate'][cid]['vote']), fr(prev['quota'])
                        holds = v > q if V.exact else v >= q
                        if V.name == 'guarded' and V.exact:
                            holds = (prev['cstate'][cid]['vote'] > prev['quota'])
                        if holds and 'remaining' not in a['msg'].lower():
                            res.violation('candidate %s excluded while holding a quota (%s >= %s) (%s %s)' % (cid, v, q, rule, opts), wit(data, rule, opts))
            prev = a
        # Meek family: after every distribution the quota is recomputed from the votes then credited to the continuing candidates
        # (the iterate / elect snapshots carry the tallies and the quota of the same distribution)
        if rule in MEEK_FAMILY and V.name != 'rational':
            for a in E.erecord['actions']:
                if 'cstate' not in a or not (a['tag'] == 'iterate' or (rule == 'meek-prf' and a['tag'] == 'elect' and
                                                                        'remaining' not in a['msg'].lower())):
                    continue
                tot = sum((fr(c['vote']) for c in a['cstate'].values() if c['state'] in ('hopeful', 'elected')), Fraction(0))
                q = fr(a['quota'])
                want = (tot / (s + 1) // u) * u + (Fraction(0) if V.exact else u)
                if q != want:
                    res.violation('quota %s at an iteration snapshot, prescribed %s = credited votes %s / (seats+1) truncated%s (%s %s)'
                                  % (q, want, tot, '' if V.exact else ' + epsilon', rule, opts), wit(data, rule, opts))
                    break
    run_counts(res, RULES, res.tier, res.seed, per, with_withdrawn=False)
    # ballots with equal rankings: counted by meek / warren, carried but ignored by every other rule (they must not leak into a quota)
    run_extra(res, eq_profiles(res.tier, res.seed), ['meek', 'warren', 'meek-prf', 'wigm', 'scotland'], per,
              8 if res.tier == 'quick' else 200, opts_list=({},))


class Tap:
    "wrap Election.logAction to look at live objects at every recorded action"
    def __init__(self, fn):
        self.fn = fn
        self.orig = Election.logAction

    def __enter__(self):
        tap = self

        def logAction(E, action, msg):
            tap.orig(E, action, msg)
            tap.fn(E, action, msg)
        Election.logAction = logAction

    def __exit__(self, *a):
        Election.logAction = self.orig


def check_C06(res):
    res.rule = ('wigm family, strict rankings: at every recorded action tally of each continuing candidate == sum of the values of the '
                'ballots standing with it; weights in [0,1] and never increasing; each ballot stands with its first continuing '
                'preference; distinct = (rule, tags)')
    state = {}

    def tap(E, action, msg):
        if action in ('log', 'round', 'tie') or E.rule.method != 'wigm':
            return
        data, rule, opts = state['cur']
        if rule == 'cfer' or rule == 'cfer-batch':
            cont = lambda c: c.state == 'hopeful'      # noqa  (cfer transfers every pending surplus in the same round)
        else:
            cont = lambda c: c.state == 'hopeful' or (c.state == 'elected' and c.pending)      # noqa
        sums = {}
        # surplus transfer: every ballot that stood with the elected candidate is re-valued at
        #   old value x surplus / tally, truncated after each operation at the rule's precision (Scottish: one truncation)
        hc = None
        if action == 'transfer' and ('urplus' in msg) and state.get('prev_votes') is not None:
            for c in E.C:
                if c.state == 'elected' and (msg.startswith('Surplus transferred: %s' % c.name) or msg.startswith('Transfer surplus: %s' % c.name)):
                    hc = c
        if hc is not None:
            v0 = state['prev_votes'].get(hc.cid)
            q = E.quota
            if v0 is not None and fr(hc.vote) != fr(q):
                res.violation('elected candidate keeps %s after the surplus transfer, quota is %s (%s)' % (hc.vote, q, rule), wit(data, rule, opts))
            if v0 is not None:
                s_ = v0 - q
                for b in E.ballots:
                    ow, otop = state['bt'].get(id(b), (None, None))
                    if otop == hc.cid and ow is not None:
                        exp = E.V.muldiv(ow, s_, v0, round='down') if rule == 'scotland' else (ow * s_) / v0
                        if fr(b.weight) != fr(exp):
                            res.violation('surplus transfer of %s: ballot value %s became %s, expected %s (= value x surplus / tally rounded down) (%s %s)' %
                                          (hc.name, ow, b.weight, exp, rule, opts), wit(data, rule, opts))
        elif action == 'transfer' and 'efeated' in msg:
            for b in E.ballots:
                ow, otop = state['bt'].get(id(b), (None, None))
                if ow is not None and fr(b.weight) != fr(ow):
                    res.violation('a ballot changed value (%s -> %s) during the transfer of an excluded candidate (%s)' % (ow, b.weight, rule), wit(data, rule, opts))
        state['prev_votes'] = {c.cid: c.vote for c in E.C if c.state != 'withdrawn'}
        state['bt'] = {id(b): (b.weight, (b.ranking[b.index] if b.index < len(b.ranking) else None)) for b in E.ballots}
        for b in E.ballots:
            w = b.weight
            key = id(b)
            lw = state['w'].get(key)
            if lw is not None and fr(w) > lw:
                res.violation('ballot value increased %s -> %s (%s)' % (lw, fr(w), rule), wit(data, rule, opts))
            state['w'][key] = fr(w)
            if fr(w) < 0 or fr(w) > 1:
                res.violation('ballot value %s outside [0,1] (%s)' % (fr(w), rule), wit(data, rule, opts))
            if action in ('transfer', 'begin', 'count', 'end'):
                tc = b.topCand
                # first continuing preference
                for cid in b.ranking[:b.index]:
                    c = E.C.byCid(cid)
                    if c.state == 'hopeful' and not (rule == 'mpls' and False):
                        res.violation('ballot passed over hopeful candidate %s (%s, action %s)' % (cid, rule, action), wit(data, rule, opts))
                if tc is not None:
                    sums[tc.cid] = sums.get(tc.cid, 0) + fr(b.vote)
        if action in ('transfer', 'begin', 'count'):
            for c in E.C:
                if c.state == 'hopeful':
                    if fr(c.vote) != sums.get(c.cid, 0):
                        res.violation('tally of hopeful %s is %s but its ballots are worth %s (%s %s, action %s: %s)' %
                                      (c.cid, fr(c.vote), sums.get(c.cid, 0), rule, opts, action, msg), wit(data, rule, opts))

    profs = small_profiles(res.tier, res.seed, False, False)
    budget = 25 if res.tier == 'quick' else 600
    t0 = time.time()
    with Tap(tap):
        for p in profs:
            data = pdata(p)
            for rule in WIGM_FAMILY:
                for opts in option_grid(rule, res.tier):
                    if time.time() - t0 > budget:
                        return
                    state['cur'] = (data, rule, opts)
                    state['w'] = {}
                    state['bt'] = {}
                    state['prev_votes'] = None
                    try:
                        E = counted(data, rule, opts)
                    except (Timeout, ElectionProfileError, UsageError, AssertionError):
                        res.skipped += 1
                        continue
                    res.evaluations += 1
                    res.sig((rule, action_sig(E)))


def scottish_ties_factory(res):
    def scottish_ties(E, data, rule, opts, p):
        """Scottish order 49(2)(3) / 51(2): a tie is decided by the most recent earlier stage at which the tied candidates'
        tallies give a unique lowest (exclusion) / highest (surplus); failing that by lot (the declared tie order)"""
        acts = E.erecord['actions']
        names = {c.name: c.cid for c in E.C}
        tieorder = {c.cid: c.tieOrder for c in E.C}
        stages = []     # candidate tallies saved at each 'round' action (what E.rounds holds)
        for i, a in enumerate(acts):
            if a['tag'] == 'round':
                stages.append({cid: fr(c['vote']) for cid, c in a['cstate'].items() if c['state'] != 'withdrawn'})
            if a['tag'] != 'tie':
                continue
            msg = a['msg']
            try:
                inside = msg[msg.index('[') + 1:msg.index(']')]
                tied = [names[x.strip()] for x in inside.split(',')]
                chosen = names[msg.rsplit('-> ', 1)[1].strip()]
            except Exception:
                continue
            lowest = 'defeat' in msg
            want = None
            for stg in reversed(stages[:-1] if False else stages[:a['round']]):
                vals = {c: stg[c] for c in tied}
                ext = min(vals.values()) if lowest else max(vals.values())
                cands = [c for c in tied if vals[c] == ext]
                if len(cands) == 1:
                    want = cands[0]
                    break
            if want is None:
                want = min(tied, key=lambda c: tieorder[c])
            if chosen != want:
                res.violation('Scottish tie %r resolved for candidate %s; the most recent differing stage (else the lot) gives %s' % (msg[:70], chosen, want),
                              wit(data, rule, opts))
    return scottish_ties


def sure_losers_factory(res):
    def sure_losers(E, data, rule, opts):
        """a run of consecutive batch exclusions: the batch's combined tallies plus all untransferred surplus are below the
        lowest tally among the candidates that stay (tallies as recorded just before the batch)"""
        acts = [a for a in E.erecord['actions'] if 'cstate' in a and a['tag'] != 'tie']
        i = 0
        while i < len(acts):
            a = acts[i]
            isb = a['tag'] == 'defeat' and any(k in a['msg'].lower() for k in ('sure loser', 'certain loser', 'batch')) \
                and 'zero' not in a['msg'].lower()
            if not isb or i == 0:
                i += 1
                continue
            before = acts[i - 1]['cstate']
            j = i
            while j < len(acts) and acts[j]['tag'] == 'defeat' and acts[j]['msg'].split(':')[0] == a['msg'].split(':')[0]:
                j += 1
            after = acts[j - 1]['cstate']
            batch = [cid for cid in before if before[cid]['state'] == 'hopeful' and after[cid]['state'] == 'defeated']
            stay = [cid for cid in before if before[cid]['state'] == 'hopeful' and after[cid]['state'] == 'hopeful']
            i = j
            if not batch or not stay:
                continue
            q = fr(acts[i - 1]['quota']) if False else fr(a['quota'])
            surplus = sum((max(Fraction(0), fr(c['vote']) - q) for c in before.values() if c['state'] == 'elected'), Fraction(0))
            if rule in MEEK_FAMILY and acts[j - 1].get('surplus') is not None:
                surplus = fr(a['surplus']) if a.get('surplus') is not None else surplus
            if rule == 'mpls':
                # 167.20: votes that could still reach a candidate include those of the undeclared write-ins being excluded in
                # the same round (defeated already, their ballots not yet transferred)
                und = {c.cid for c in E.C if c.isUndeclared}
                surplus += sum((fr(before[cid]['vote']) for cid in before if cid in und and before[cid]['state'] == 'defeated'), Fraction(0))
                stay = [cid for cid in stay if cid not in und]
                if not stay:
                    continue
            total = sum((fr(before[cid]['vote']) for cid in batch), Fraction(0)) + surplus
            nxt = min(fr(before[cid]['vote']) for cid in stay)
            if not total < nxt:
                res.violation('batch %s is not a set of sure losers: their tallies plus the untransferred surplus are %s, the next candidate has %s (%s %s)'
                              % (batch, total, nxt, rule, opts), wit(data, rule, opts))
                return

    return sure_losers


def check_C07(res):
    scottish_ties = scottish_ties_factory(res)
    res.rule = ('every single exclusion is of a lowest hopeful (within surplus for meek family; lowest quotient for qpq); every tie among '
                'the lowest is logged; a record without tie actions is unchanged under every tie order (n<=4); distinct = (rule, tags)')

    def batches(E, data, rule, opts):
        "after every exclusion of a batch, the continuing and elected candidates can still fill the seats"
        prev = None
        for a in E.erecord['actions']:
            if 'cstate' not in a:
                continue
            if prev is not None and a['tag'] == 'defeat' and any(k in a['msg'].lower() for k in ('sure loser', 'certain loser', 'batch')):
                # (the statutory exclusion of undeclared write-ins is not a batch of sure losers: it may leave seats unfillable)
                newly = [cid for cid, c in a['cstate'].items() if c['state'] == 'defeated' and prev['cstate'][cid]['state'] == 'hopeful']
                left = sum(1 for c in a['cstate'].values() if c['state'] in ('hopeful', 'elected'))
                if newly and left < E.nSeats:
                    res.violation('exclusion of %s leaves %d continuing/elected candidates for %d seats (%s %s)' % (
                        newly, left, E.nSeats, rule, opts), wit(data, rule, opts))
                    return
            prev = a

    sure_losers = sure_losers_factory(res)

    def per(E, data, rule, opts, p, exc=None):
        if exc is None and os.environ.get('C07_SURE', '1') == '1':
            sure_losers(E, data, rule, opts)
        if exc is not None:
            if E is not None and not isinstance(exc, Timeout):
                try:
                    batches(E, data, rule, opts)
                except Exception:     # noqa  a record too broken to read is C19's business
                    pass
            return
        batches(E, data, rule, opts)
        acts = [a for a in E.erecord['actions']]
        prev = None
        for i, a in enumerate(acts):
            if 'cstate' not in a:
                continue
            if a['tag'] == 'tie':
                continue        # a tie action carries the same candidate state as the action before it
            if prev is not None and a['tag'] == 'defeat':
                newly = [cid for cid, c in a['cstate'].items() if c['state'] == 'defeated' and prev['cstate'][cid]['state'] == 'hopeful']
                msg = a['msg'].lower()
                single = not any(k in msg for k in ('batch', 'sure loser', 'certain loser', 'remaining', 'undeclared'))
                if single and len(newly) == 1 and rule != 'qpq':
                    cid = newly[0]
                    # Meek family: iterations change tallies without recording actions; the exclusion action itself still shows
                    # the tallies and surplus the decision was taken on (the excluded candidate is zeroed after it is logged)
                    src = a if rule in MEEK_FAMILY else prev
                    hv = {k: fr(c['vote']) for k, c in src['cstate'].items() if c['state'] == 'hopeful' or k == cid}
                    hvV = {k: c['vote'] for k, c in src['cstate'].items() if c['state'] == 'hopeful' or k == cid}
                    lowk = min(hv, key=lambda k: hv[k])
                    # (truncation can leave the recorded total surplus a hair below zero: the window is never negative)
                    sp = src.get('surplus') if rule in MEEK_FAMILY else None
                    bound = hvV[lowk] + sp if (sp is not None and fr(sp) > 0) else hvV[lowk]
                    # compared with the arithmetic's own comparison (guarded values are equal within the tolerance)
                    if hvV[cid] > bound:
                        res.violation('excluded %s with %s while the lowest tally is %s (%s %s)' % (cid, hv[cid], min(hv.values()), rule, opts), wit(data, rule, opts))
                    tied = [k for k, v in hv.items() if v == hv[cid]]
                    if len(tied) > 1 and rule not in MEEK_FAMILY:
                        # a tie action must directly precede the exclusion
                        j = i - 1
                        seen_tie = False
                        while j >= 0 and acts[j]['tag'] in ('tie', 'log'):
                            if acts[j]['tag'] == 'tie':
                                seen_tie = True
                            j -= 1
                        if not seen_tie:
                            res.violation('tie among lowest %s resolved without a tie action (%s %s)' % (tied, rule, opts), wit(data, rule, opts))
            prev = a
        if rule == 'scotland':
            scottish_ties(E, data, rule, opts, p)
        # tie-order independence when no tie is logged
        if not any(a['tag'] == 'tie' for a in acts) and p['ncand'] <= 4 and res.tier != 'quick' or \
                (not any(a['tag'] == 'tie' for a in acts) and p['ncand'] <= 3):
            base = E.dump()
            for perm in itertools.permutations(range(1, p['ncand'] + 1)):
                d2 = pdata(p, tie=list(perm))
                try:
                    E2 = counted(d2, rule, opts)
                except Exception:
                    continue
                if E2.dump() != base:
                    res.violation('no tie logged, yet the record changes with tie order %s (%s %s)' % (list(perm), rule, opts), wit(d2, rule, opts, {'base_blt': data}))
                    break
    run_counts(res, RULES, res.tier, res.seed, per, with_withdrawn=False)
    # batches of sure losers: Minneapolis with undeclared write-ins, and the batch-rich profiles
    run_counts(res, ['mpls'], res.tier, res.seed + 7, per, with_withdrawn=True, with_undeclared=True, grid=False,
               time_budget=6 if res.tier == 'quick' else 120)
    run_extra(res, batch_profiles(res.tier, res.seed), ['wigm-prf-batch', 'cfer-batch', 'mpls', 'meek'], per,
              8 if res.tier == 'quick' else 300, opts_list=({},))
    # tie-rich domain for the tie procedures
    t0 = time.time()
    for p in tie_rich_profiles(res.tier, res.seed):
        if time.time() - t0 > (12 if res.tier == 'quick' else 300):
            break
        data = pdata(p)
        for rule, o in (('scotland', {}), ('wigm', {}), ('mpls', {}), ('qpq', {}), ('cfer', {}), ('meek-prf', {}),
                        ('meek', {'arithmetic': 'fixed', 'precision': 4, 'omega': 0}),      # a coarse omega: the exclusion window is the
                        ('warren', {'arithmetic': 'fixed', 'precision': 4, 'omega': 1})):  # surplus, not omega
            try:
                E = counted(data, rule, o)
            except Exception:
                continue
            res.evaluations += 1
            res.sig((rule, action_sig(E)))
            per(E, data, rule, o, p)


def check_C08(res):
    res.rule = 'meek/warren/meek-prf: invariants at iterate/begin/end (and meek-prf elect/tie/defeat) snapshots; distinct = (rule, tags)'

    def per(E, data, rule, opts, p, exc=None):
        if exc is not None:
            return
        N = Fraction(E.nBallots)
        # the CONFIGURED omega (1/10^omega as the options give it), not whatever the rule computed from it
        o10 = E.options.getopt('omega')
        omega = Fraction(1, 10 ** int(o10)) if o10 is not None else fr(E.rule.omega)
        if rule == 'meek-prf':
            logs = [x['msg'] for x in E.erecord['actions']]
            for i_, a in enumerate(E.erecord['actions']):
                if a['tag'] == 'defeat' and '< omega' in a['msg'] and a.get('surplus') is not None and not fr(a['surplus']) < omega:
                    res.violation('exclusion reported as converged (%r) with surplus %s, omega %s (meek-prf)' % (a['msg'], fr(a['surplus']), omega),
                                  wit(data, rule, opts))
                if a['tag'] == 'defeat' and 'stable surplus' in a['msg'] and not any('Stable state detected' in m for m in logs[:i_]):
                    res.violation('exclusion on a stalled surplus without the stable state being logged (meek-prf)', wit(data, rule, opts))
        for a in E.erecord['actions']:
            if 'cstate' not in a:
                continue
            named = None
            if rule == 'meek-prf':
                ok_tags = ('begin', 'elect', 'tie', 'defeat', 'end')
                if a['tag'] not in ok_tags or 'remaining' in a['msg'].lower():
                    continue
                if a['tag'] == 'defeat':
                    named = a['msg']
            else:
                if a['tag'] not in ('iterate', 'begin', 'end'):
                    continue
            tot = sum(fr(c['vote']) for c in a['cstate'].values() if c['state'] != 'withdrawn') + fr(a['residual'])
            after_excl = False
            if rule == 'meek-prf' and a['tag'] in ('end',):
                after_excl = True
            if a['tag'] != 'begin' and not after_excl and tot != N and not (rule == 'meek-prf' and a['tag'] in ('elect', 'tie', 'defeat') and False):
                if rule != 'meek-prf' or a['tag'] in ('elect', 'tie', 'defeat'):
                    res.violation('votes + residual = %s != %s ballots at %s (%s %s)' % (tot, N, a['tag'], rule, opts), wit(data, rule, opts))
            if fr(a['residual']) < 0:
                res.violation('negative residual at %s (%s)' % (a['tag'], rule), wit(data, rule, opts))
            for cid, c in a['cstate'].items():
                if c['state'] == 'withdrawn':
                    continue
                if fr(c['vote']) < 0:
                    res.violation('negative tally (%s)' % rule, wit(data, rule, opts))
                kf = c.get('kf')
                if kf is None:
                    continue
                k = fr(kf)
                if c['state'] == 'hopeful' and k != 1:
                    res.violation('hopeful candidate with keep factor %s at %s (%s)' % (k, a['tag'], rule), wit(data, rule, opts))
                if c['state'] == 'defeated' and k != 0 and not (named and named.endswith(': c%d' % cid)):
                    res.violation('defeated candidate with keep factor %s at %s (%s)' % (k, a['tag'], rule), wit(data, rule, opts))
                if c['state'] == 'elected' and not (0 < k <= 1):
                    res.violation('elected candidate with keep factor %s at %s (%s %s)' % (k, a['tag'], rule, opts), wit(data, rule, opts))
        # exclusion only after an end of iteration: (meek/warren) a defeat is preceded by an iterate action omega/stable/batch
        if rule in ('meek', 'warren'):
            last_iter = None
            for a in E.erecord['actions']:
                if a['tag'] == 'iterate':
                    last_iter = a
                if a['tag'] == 'defeat' and 'remaining' not in a['msg'].lower():
                    if last_iter is None or not any(k in last_iter['msg'] for k in ('omega', 'stable', 'batch')):
                        res.violation('exclusion without a converged iteration before it (%s)' % rule, wit(data, rule, opts))
                    elif 'omega' in last_iter['msg'] and fr(last_iter['surplus']) > omega:
                        res.violation('iteration ended "omega" with surplus %s > omega %s' % (fr(last_iter['surplus']), omega), wit(data, rule, opts))
    run_counts(res, MEEK_FAMILY, res.tier, res.seed, per, with_withdrawn=False)
    run_extra(res, eq_profiles(res.tier, res.seed), ['meek', 'warren'], per, 12 if res.tier == 'quick' else 300,
              opts_list=({}, {'arithmetic': 'fixed', 'precision': 6}, {'arithmetic': 'guarded', 'precision': 6, 'guard': 0},
                         {'arithmetic': 'fixed', 'precision': 4, 'omega': 2}, {'arithmetic': 'fixed', 'precision': 3, 'omega': 5}))
    # very large elections (multipliers of 10^5..10^7): the region where a keep factor's last digit can stall the surplus
    rngb = random.Random(res.seed * 3 + 2)
    big = []
    for p0 in small_profiles('quick', res.seed + 5, False, False)[:300 if res.tier == 'quick' else 3000]:
        q = dict(p0)
        q['lines'] = [(m * rngb.choice([10 ** 5, 333333, 10 ** 6, 7654321]) + rngb.randint(0, 9), r) for m, r in p0['lines']]
        big.append(q)
    run_extra(res, big, ['meek-prf', 'meek'], per, 8 if res.tier == 'quick' else 200, opts_list=({},))


def check_C10(res):
    res.rule = ('each profile is re-presented: ballot lines permuted, a multiplier split in two equal lines, two identical lines merged, '
                'comments / extra whitespace / one-line layout, nicknames; dump and report must be identical; distinct = (rule, tags)')
    rng = random.Random(res.seed)

    def variants(p):
        vs = []
        lines = list(p['lines'])
        if len(lines) > 1:
            l2 = list(lines)
            rng.shuffle(l2)
            vs.append(('permuted lines', pdata(p, lines=l2)))
            vs.append(('reversed lines', pdata(p, lines=lines[::-1])))
        for i, (m, r) in enumerate(lines):
            if m >= 2:
                a = m // 2
                l3 = lines[:i] + [(a, r), (m - a, r)] + lines[i + 1:]
                vs.append(('multiplier %d split %d+%d' % (m, a, m - a), pdata(p, lines=l3)))
                l4 = lines[:i] + [(a, r)] + lines[i + 1:] + [(m - a, r)]
                vs.append(('multiplier split, second part moved to the end', pdata(p, lines=l4)))
                break
        base = pdata(p)
        vs.append(('one-line layout', ' '.join(base.split('\n'))))
        vs.append(('comments', base.replace('\n', ' # c\n', 2).replace('0\n"', '0 /* x /* y */ z */\n"', 1)))
        # comment text that looks like other syntax: a # and a quoted word inside block comments, between the ballot lines
        vs.append(('tricky comments', base.replace('\n', ' /* precinct # 1 */\n', 1).replace('\n', '\n/* listed as "Leda" # once */\n', 1)))
        n = p['ncand']
        nicks = ['n%s' % chr(96 + i) for i in range(1, n + 1)]
        bl = blt(n, p['nseats'], [(m, maprank(r, lambda c: nicks[c - 1])) for m, r in lines], (), (), None)
        bl = bl.replace('\n', '\n[nick %s]\n' % ' '.join(nicks), 1)
        if not p['withdrawn'] and not p['tie']:
            vs.append(('nicknames', bl))
        return vs

    def per(E, data, rule, opts, p, exc=None):
        if exc is not None:
            return
        base_dump, base_rep = E.dump(), E.report()
        for name, d2 in variants(p):
            try:
                E2 = counted(d2, rule, opts)
            except Exception as e:
                res.violation('presentation variant "%s" fails to count: %s (%s)' % (name, type(e).__name__, rule), wit(d2, rule, opts, {'base_blt': data}))
                continue
            res.evaluations += 1
            rep2 = E2.report()
            if E2.dump() != base_dump or rep2 != base_rep:
                strip = lambda t: '\n'.join(l for l in t.splitlines() if not l.startswith(('\tmaxDiff:', '\tminDiff:')))   # noqa
                if E2.dump() == base_dump and strip(rep2) == strip(base_rep) and E.V.name == 'guarded':
                    res.violation('report changes under presentation variant "%s" only in the guarded comparison statistics '
                                  '(maxDiff/minDiff lines) (%s %s)' % (name, rule, opts), wit(d2, rule, opts, {'base_blt': data}))
                else:
                    res.violation('record changes under presentation variant "%s" (%s %s)' % (name, rule, opts), wit(d2, rule, opts, {'base_blt': data}))
    run_counts(res, RULES, res.tier, res.seed, per, with_withdrawn=False, time_budget=40 if res.tier == 'quick' else 900)


def check_C11(res):
    res.rule = ('renumbering: every permutation (n<=3) / 3 random permutations of candidate ids with names, tie order and ballots carried '
                'along -> same winners by name and same final tallies; withdrawn == deleted: record equal modulo the withdrawn '
                "candidate's descriptor lines; distinct = (rule, tags)")
    rng = random.Random(res.seed)

    def per(E, data, rule, opts, p, exc=None):
        if exc is not None:
            return
        n = p['ncand']
        names = {c.cid: c.name for c in E.C}
        win = sorted(c.name for c in E.C if c.state == 'elected')
        fin = {c.name: str(c.vote) for c in E.C if c.state != 'withdrawn'}
        tie = p['tie'] or list(range(1, n + 1))
        perms = list(itertools.permutations(range(1, n + 1))) if n <= 3 else [tuple(rng.sample(range(1, n + 1), n)) for _ in range(3)]
        had_tie = any(a['tag'] == 'tie' for a in E.erecord['actions'])
        for perm in perms:
            m = {old: new for old, new in zip(range(1, n + 1), perm)}       # old cid -> new cid
            inv = {v: k for k, v in m.items()}
            nm = ['"%s"' % names[inv[i]] for i in range(1, n + 1)]
            lines = [(mu, maprank(r, lambda c: m[c])) for mu, r in p['lines']]
            d2 = blt(n, p['nseats'], lines, tuple(m[c] for c in p['withdrawn']), (), [m[c] for c in tie], names=nm)
            try:
                E2 = counted(d2, rule, opts)
            except Exception as e:
                res.violation('renumbered profile fails: %s' % type(e).__name__, wit(d2, rule, opts, {'base_blt': data}))
                continue
            res.evaluations += 1
            win2 = sorted(c.name for c in E2.C if c.state == 'elected')
            fin2 = {c.name: str(c.vote) for c in E2.C if c.state != 'withdrawn'}
            if win2 != win or fin2 != fin:
                res.violation('renumbering %s changes winners/final tallies: %s -> %s (%s %s)' % (m, win, win2, rule, opts), wit(d2, rule, opts, {'base_blt': data}))
        # withdrawn == deleted
        if p['withdrawn'] and not p['tie']:
            keep = [c for c in range(1, n + 1) if c not in p['withdrawn']]
            m = {c: i + 1 for i, c in enumerate(keep)}
            lines = [(mu, maprank(r, lambda c: m[c], keep=m)) for mu, r in p['lines']]
            lines = [(mu, r) for mu, r in lines if r]
            d3 = blt(len(keep), p['nseats'], lines, (), (), None, names=['"%s"' % names[c] for c in keep])
            try:
                E3 = counted(d3, rule, opts)
            except Exception:
                return
            a1 = [(a['tag'], a['msg'], str(a.get('quota'))) for a in E.erecord['actions'] if not a['msg'].startswith('Add ')]
            a3 = [(a['tag'], a['msg'], str(a.get('quota'))) for a in E3.erecord['actions'] if not a['msg'].startswith('Add ')]
            t1 = [sorted((names[cid], str(c.get('vote')), c['state']) for cid, c in a['cstate'].items() if c['state'] != 'withdrawn')
                  for a in E.erecord['actions'] if 'cstate' in a]
            n3 = {c.cid: c.name for c in E3.C}
            t3 = [sorted((n3[cid], str(c.get('vote')), c['state']) for cid, c in a['cstate'].items())
                  for a in E3.erecord['actions'] if 'cstate' in a]
            if a1 != a3 or t1 != t3:
                res.violation('withdrawn %s is not the same as deleted (%s %s)' % (list(p['withdrawn']), rule, opts), wit(data, rule, opts, {'deleted_blt': d3}))
    run_counts(res, RULES, res.tier, res.seed, per, with_withdrawn=True, grid=False, time_budget=30 if res.tier == 'quick' else 900)
    # tie-rich domain: exact ties are where candidate numbering can leak into the outcome
    t0 = time.time()
    for p in tie_rich_profiles('thorough', res.seed):
        if time.time() - t0 > (20 if res.tier == 'quick' else 400):
            break
        data = pdata(p)
        for rule in ('scotland', 'wigm', 'qpq'):
            try:
                E = counted(data, rule, {})
            except Exception:
                continue
            res.evaluations += 1
            res.sig((rule, action_sig(E)))
            per(E, data, rule, {}, p)


def check_C13(res):
    res.rule = 'guard=0 vs fixed of the same precision: dumps identical for wigm/meek/warren on the domain; distinct = (rule, tags)'

    def per(E, data, rule, opts, p, exc=None):
        if exc is not None:
            return
        for prec in (0, 2, 4):
            try:
                Ef = counted(data, rule, {'arithmetic': 'fixed', 'precision': prec})
                df = Ef.dump()
                Eg = counted(data, rule, {'arithmetic': 'guarded', 'precision': prec, 'guard': 0})
                dg = Eg.dump()
            except Exception:
                continue
            res.evaluations += 1
            if df != dg:
                res.violation('guard=0 differs from fixed at precision %d (%s)' % (prec, rule), wit(data, rule, {'precision': prec}))
    run_counts(res, ['wigm', 'meek', 'warren'], res.tier, res.seed, per, with_withdrawn=False, grid=False)


def check_C17(res):
    res.rule = 'statutory rules counted with random arithmetic/precision/guard/display/omega/quota/batch options from both sources: dump identical; distinct = (rule, tags)'
    rng = random.Random(res.seed)

    def per(E, data, rule, opts, p, exc=None):
        if exc is not None:
            return
        base = E.dump()
        for _ in range(3):
            o = {}
            for k, vals in (('arithmetic', ['fixed', 'rational', 'guarded', 'integer']), ('precision', [0, 3, 7, 12]), ('guard', [0, 2, 5]),
                            ('display', [0, 2, 6]), ('omega', [2, 9]), ('integer_quota', [True, False]),
                            ('defeat_batch', ['zero', 'none', 'safe'])):
                if rng.random() < 0.6:
                    o[k] = rng.choice(vals)
            if rng.random() < 0.5:
                o[rng.choice(['prexision', 'gaurd', 'colour'])] = rng.choice([7, 'x'])      # a misspelt option nobody asks for
            fileopts = ['%s=%s' % (k, v) for k, v in o.items() if rng.random() < 0.5]
            cmd = {k: v for k, v in o.items() if '%s=%s' % (k, v) not in fileopts}
            d2 = pdata(p).replace('\n', '\n[droop %s]\n' % ' '.join(fileopts), 1) if fileopts else data
            try:
                E2 = counted(d2, rule, cmd)
            except Exception as e:
                res.violation('statutory rule %s fails under options %s / file %s: %s' % (rule, cmd, fileopts, type(e).__name__), wit(d2, rule, cmd))
                continue
            res.evaluations += 1
            if E2.dump() != base:
                res.violation('statutory rule %s counts differently under options %s / file %s' % (rule, cmd, fileopts), wit(d2, rule, cmd, {'base_blt': data}))
            reporting(E2, d2, rule, cmd)

    def reporting(E2, d2, rule, cmd):
        "the record reports the four layers and the effective values by precedence; the report names unused and overridden options"
        rec = E2.record()['options']
        L = {k: rec[k] for k in ('force', 'cmd', 'file_options', 'default')}
        names = set().union(*[set(v) for v in L.values()])
        for k in names:
            want = L['force'].get(k, L['cmd'].get(k, L['file_options'].get(k, L['default'].get(k))))
            if rec['options'].get(k) != want or (k not in rec['options']):
                res.violation("record['options']['options'][%r] is %r, the layers give %r (%s)" % (k, rec['options'].get(k), want, rule), wit(d2, rule, cmd))
                return
        supplied = dict(L['file_options'])
        supplied.update(L['cmd'])
        unused = sorted(k for k in supplied if k not in ('rule', 'path') and k not in L['default'])
        over = sorted(k for k, v in L['force'].items() if k in supplied and supplied[k] != v)
        head = E2.report().split('Seats:')[0]
        for label, lst in (('Unused options', unused), ('Overridden options', over)):
            line = [ln for ln in head.splitlines() if ln.strip().startswith(label + ':')]
            if lst and (len(line) != 1 or line[0].split(':', 1)[1].strip() != ', '.join(lst)):
                res.violation('report header does not name the %s %s (found %r) (%s)' % (label.lower(), lst, line, rule), wit(d2, rule, cmd))
                return
            if not lst and line:
                res.violation('report header names %s although there are none: %r (%s)' % (label.lower(), line, rule), wit(d2, rule, cmd))
                return
    run_counts(res, STATUTORY, res.tier, res.seed, per, with_withdrawn=False, grid=False)

    # "the report names unused ... options": an option the report calls unused must have had no effect - counting again without it
    # gives the same report (apart from the header line that names it)
    def per_unused(E, data, rule, opts, p, exc=None):
        if exc is not None or not opts:
            return
        rep = E.report()
        head = rep.split('Seats:')[0]
        line = [ln for ln in head.splitlines() if ln.strip().startswith('Unused options:')]
        if not line:
            return
        strip = lambda t: '\n'.join(l for l in t.splitlines() if not l.strip().startswith('Unused options:'))    # noqa
        for k in [x.strip() for x in line[0].split(':', 1)[1].split(',')]:
            if k not in opts:
                continue
            o2 = {kk: vv for kk, vv in opts.items() if kk != k}
            try:
                E2 = counted(data, rule, o2)
            except Exception:
                continue
            res.evaluations += 1
            if strip(E2.report()) != strip(rep):
                res.violation('the report calls option %r unused, yet leaving it out changes the report (%s %s)' % (k, rule, opts), wit(data, rule, opts))
                return
    profs = small_profiles('quick', res.seed + 11, False, False)[:60 if res.tier == 'quick' else 600]
    run_extra(res, profs, ['wigm', 'meek'], per_unused, 8 if res.tier == 'quick' else 120,
              opts_list=({'display': 3}, {'arithmetic': 'fixed', 'precision': 6, 'display': 2}, {'arithmetic': 'rational', 'display': 4},
                         {'arithmetic': 'guarded', 'precision': 6, 'guard': 4, 'display': 8}, {'colour': 7}, {'omega': 3, 'display': 5}))


def check_C20(res):
    res.rule = ('each election is counted after 1-3 random other elections (other rules/arithmetics/precisions/displays) and again fresh: '
                'identical dump/report/json; the same profile object counted twice in fresh elections (incl. equal rankings for meek/warren): identical')
    rng = random.Random(res.seed)
    profs = small_profiles(res.tier, res.seed, False, False)
    budget = 25 if res.tier == 'quick' else 600
    t0 = time.time()

    def rnd_election():
        p = rng.choice(profs)
        rule = rng.choice(RULES)
        opts = rng.choice(option_grid(rule, 'thorough'))
        if rule in ('wigm', 'meek', 'warren') and rng.random() < 0.5:
            opts = dict(opts)
            opts['display'] = rng.choice([0, 2, 5, 11])
        return p, rule, opts

    def full(data, rule, opts):
        E = counted(data, rule, opts)
        return E.report() + E.dump() + E.json()
    while time.time() - t0 < budget:
        p, rule, opts = rnd_election()
        if opts.get('arithmetic') == 'rational' and rule in MEEK_FAMILY:
            continue
        data = pdata(p)
        try:
            ref = full(data, rule, opts)
            for _ in range(rng.randint(1, 3)):
                q, r2, o2 = rnd_election()
                if o2.get('arithmetic') == 'rational' and r2 in MEEK_FAMILY:
                    continue
                try:
                    full(pdata(q), r2, o2)
                except Exception:
                    pass
            again = full(data, rule, opts)
        except Exception:
            res.skipped += 1
            continue
        res.evaluations += 1
        res.sig((rule, str(sorted(opts.items())), hash(ref) % 1000))
        if again != ref:
            res.violation('record differs after other elections were counted in between (%s %s)' % (rule, opts), wit(data, rule, opts))
    # the same profile OBJECT counted again in a fresh election (the profile must come out of a count unchanged)
    t1 = time.time()
    budget2 = 10 if res.tier == 'quick' else 300
    pool = [(p, RULES) for p in profs[:400]] + [(p, ['meek', 'warren']) for p in eq_profiles(res.tier, res.seed)]
    rng.shuffle(pool)
    for p, rules in pool:
        if time.time() - t1 > budget2:
            break
        data = pdata(p)
        rule = rng.choice(rules)
        opts = rng.choice(option_grid(rule, 'quick'))
        if opts.get('arithmetic') == 'rational' and rule in MEEK_FAMILY:
            continue
        try:
            prof = ElectionProfile(data=data)
            recs = []
            for _ in range(2):
                o = {'rule': rule}
                o.update(opts)
                E = Election(prof, o)
                signal.alarm(5)
                try:
                    E.count()
                finally:
                    signal.alarm(0)
                recs.append(E.report() + E.dump() + E.json())
        except Exception:
            res.skipped += 1
            continue
        res.evaluations += 1
        res.sig((rule, 'reuse', hash(recs[0]) % 1000))
        if recs[0] != recs[1]:
            res.violation('counting the same profile object again in a fresh election gives a different record (%s %s)' % (rule, opts),
                          wit(data, rule, opts))


CHECKS = {'C01': check_C01, 'C02': check_C02, 'C04': check_C04, 'C06': check_C06, 'C07': check_C07, 'C08': check_C08,
          'C09': check_C09, 'C10': check_C10, 'C11': check_C11, 'C13': check_C13, 'C17': check_C17, 'C20': check_C20}


def main():
    ap = argparse.ArgumentParser()
    ap.add_argument('--prop')
    ap.add_argument('--tier', default='quick')
    ap.add_argument('--seed', type=int, default=0)
    ap.add_argument('--out')
    ap.add_argument('--replay-dir', default='/verif/replays')
    ap.add_argument('--replay')
    args = ap.parse_args()
    if args.replay:
        with open(args.replay) as f:
            doc = json.load(f)
        w = doc['witness']
        print('replaying', doc['what'])
        E = make(w['blt'], w['rule'], w.get('options'))
        E.count()
        print(E.report())
        return
    try:
        from . import harness_ext       # noqa
    except Exception:
        pass
    import importlib.util
    extp = os.path.join(os.path.dirname(os.path.abspath(__file__)), 'harness_ext.py')
    if os.path.exists(extp):
        spec = importlib.util.spec_from_file_location('harness_ext', extp)
        mod = importlib.util.module_from_spec(spec)
        sys.modules['harness_ext'] = mod
        mod.H = sys.modules[__name__]
        spec.loader.exec_module(mod)
        CHECKS.update(mod.CHECKS)
    res = Result(args.prop, args.tier, args.seed, args.replay_dir)
    fn = CHECKS.get(args.prop)
    if fn is None:
        res.rule = 'no bounded stand-in for this property'
    else:
        fn(res)
    res.dump(args.out)


if __name__ == '__main__':
    main()
