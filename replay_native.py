"""
Native replay of a counterexample on the real droop code (run under /venv/bin/python with
PYTHONPATH=/repo).  Prints one JSON line: {"confirmed": true|false|null, "detail": ...}.

The oracle here is written from the property statements (exact rational arithmetic, half-up
decimal rounding), independently of the SMT encoding.
"""
import json
import sys
from fractions import Fraction
import math


def out(confirmed, detail):
    print(json.dumps({'confirmed': confirmed, 'detail': detail}, default=str))
    sys.exit(0)


def ival(d, k, default=None):
    v = d.get(k, default)
    if v is None:
        return None
    if isinstance(v, str):
        if v in ('True', 'False'):
            return v == 'True'
        try:
            return int(v)
        except ValueError:
            try:
                return Fraction(v)
            except Exception:
                return default
    return v


def setup_values(clsname, obs):
    from droop.options import Options
    if clsname == 'Fixed':
        from droop.values.fixed import Fixed as K
        p = ival(obs, 'Fixed.precision', 0)
        d = ival(obs, 'Fixed.display', p)
        o = Options({'arithmetic': 'fixed', 'precision': p, 'display': d})
        K.initialize(o)
        return K, {'p': K.precision, 'g': 0, 'd': K.display, 'S': 10 ** K.precision, 'G': 1}
    if clsname == 'Guarded':
        from droop.values.guarded import Guarded as K
        p = ival(obs, 'Guarded.precision', 0)
        g = ival(obs, 'Guarded.guard', 0)
        d = ival(obs, 'Guarded.display', p)
        o = Options({'arithmetic': 'guarded', 'precision': p, 'guard': g, 'display': d})
        K.initialize(o)
        return K, {'p': p, 'g': g, 'd': K.display, 'S': 10 ** (p + g), 'G': 10 ** g}
    if clsname == 'Rational':
        from droop.values.rational import Rational as K
        d = ival(obs, 'Rational.dp', 12)
        o = Options({'arithmetic': 'rational', 'display': d})
        K.initialize(o)
        return K, {'d': d}
    out(None, 'unknown class ' + clsname)


def operand(K, obs, name):
    if name + '._value' in obs:
        return K(ival(obs, name + '._value'), True), ival(obs, name + '._value'), False
    if name in obs:
        return ival(obs, name), None, True
    return None, None, None


def half_up(x, d):
    "x (Fraction) rounded half-up at d decimal digits, as Fraction"
    return Fraction(math.floor(x * 10 ** d + Fraction(1, 2)), 10 ** d)


def parse_numeral(s):
    t = s.replace('_', '')
    neg = t.startswith('-')
    if neg:
        t = t[1:]
    if not t or t.startswith('-'):
        return None
    try:
        if '.' in t:
            a, b = t.split('.')
            if not a.isdigit() or (b and not b.isdigit()):
                return None
            v = Fraction(int(a)) + (Fraction(int(b), 10 ** len(b)) if b else 0)
        else:
            if not t.isdigit():
                return None
            v = Fraction(int(t))
    except Exception:
        return None
    return -v if neg else v


def replay_values(doc):
    fn = doc['function']
    obs = doc['observables']
    strs = doc.get('strings', {})
    parts = fn.split('.')
    clsname, meth = parts[-2], parts[-1]
    K, cfg = setup_values(clsname, obs)
    S = cfg.get('S', 1)

    def val(x, isint):
        return Fraction(x) if isint else Fraction(x._value, S)

    def rnd():
        if 'round#none' in obs and ival(obs, 'round#none'):
            return None
        if 'round#str' in strs:
            return strs['round#str'] if strs['round#str'] is not None else 'sideways'
        return None

    try:
        if meth == '__str__':
            x, raw, _ = operand(K, obs, 'self')
            s = str(x)
            exact = Fraction(raw, S)
            want = half_up(exact, cfg['d'])
            got = parse_numeral(s)
            ok = got is not None and got == want
            out(not ok, {'call': 'str(%s(%d, True)) at %s' % (clsname, raw, cfg), 'printed': s,
                         'exact_value': str(exact), 'half_up': str(want)})
        if meth in ('__add__', '__sub__', '__mul__', '__floordiv__', '__truediv__'):
            a, ra, _ = operand(K, obs, 'self')
            b, rb, bint = operand(K, obs, 'other')
            try:
                r = getattr(a, meth)(b)
            except ZeroDivisionError:
                z = (b == 0) if bint else (rb == 0)
                out(not z, {'raised': 'ZeroDivisionError'})
            ea, eb = val(a, False), val(b, bint)
            if meth == '__add__':
                want = ea + eb
            elif meth == '__sub__':
                want = ea - eb
            elif meth == '__mul__':
                want = ea * eb
            else:
                want = ea / eb
            exact_units = want * S
            if meth in ('__add__', '__sub__') or (meth == '__mul__' and bint):
                ok = Fraction(r._value) == exact_units
            else:
                ok = r._value == math.floor(exact_units)
            ok = ok and isinstance(r, K)
            out(not ok, {'call': '%s(%s,True).%s(%s)' % (clsname, ra, meth, b if bint else rb), 'stored': r._value,
                         'exact_units': str(exact_units), 'cfg': cfg})
        if meth in ('mul', 'div', 'muldiv'):
            names = ['arg1', 'arg2', 'arg3'][:3 if meth == 'muldiv' else 2]
            ops = [operand(K, obs, n) for n in names]
            r_ = rnd()
            try:
                r = getattr(K, meth)(*[o[0] for o in ops], round=r_)
            except (ValueError, ZeroDivisionError) as e:
                out(None, {'raised': type(e).__name__, 'round': r_})
            vs = [val(o[0], o[2]) for o in ops]
            want = vs[0] * vs[1] if meth == 'mul' else (vs[0] / vs[1] if meth == 'div' else vs[0] * vs[1] / vs[2])
            units = want * S
            guard_exact = clsname == 'Guarded' and cfg['g'] > 0
            exp = math.ceil(units) if (r_ == 'up' and not guard_exact) else math.floor(units)
            ok = r._value == exp and isinstance(r, K)
            out(not ok, {'call': '%s.%s(%s, round=%r)' % (clsname, meth, [o[1] if not o[2] else o[0] for o in ops], r_),
                         'stored': r._value, 'expected': exp, 'cfg': cfg})
        if meth in ('__neg__', '__pos__', '__abs__', '__bool__'):
            a, ra, _ = operand(K, obs, 'self')
            r = getattr(a, meth)()
            want = {'__neg__': -ra, '__pos__': ra, '__abs__': abs(ra), '__bool__': ra != 0}[meth]
            got = r if meth == '__bool__' else r._value
            out(got != want, {'got': got, 'want': want})
        if meth in ('__eq__', '__ne__', '__lt__', '__le__', '__gt__', '__ge__', '__cmp__'):
            a, ra, _ = operand(K, obs, 'self')
            b, rb, _ = operand(K, obs, 'other')
            r = getattr(a, meth)(b)
            G = cfg.get('G', 1)
            if clsname == 'Guarded':
                eq = 2 * abs(ra - rb) < G
                c = 0 if eq else (1 if ra > rb else -1)
            else:
                c = (ra > rb) - (ra < rb)
            want = {'__eq__': c == 0, '__ne__': c != 0, '__lt__': c < 0, '__le__': c <= 0, '__gt__': c > 0,
                    '__ge__': c >= 0, '__cmp__': c}[meth]
            out(r != want, {'call': '%s(%s).%s(%s)' % (clsname, ra, meth, rb), 'got': r, 'want': want, 'cfg': cfg})
    except SystemExit:
        raise
    except Exception as e:     # noqa
        out(None, 'native call failed: %s: %s' % (type(e).__name__, e))
    out(None, 'no native handler for ' + fn)


def replay_profile_text(doc):
    "C15/C16: the text must be read as a profile or rejected with ElectionProfileError - any other exception confirms"
    from droop.profile import ElectionProfile, ElectionProfileError
    text = doc.get('input')
    try:
        ElectionProfile(data=text)
    except ElectionProfileError as e:
        out(False, 'clean profile error: %s' % str(e)[:120])
    except Exception as e:      # noqa
        out(True, 'ElectionProfile(data=%r) raised %s: %s' % (text[:60], type(e).__name__, str(e)[:120]))
    out(False, 'accepted as a profile')


def main():
    with open(sys.argv[1]) as f:
        doc = json.load(f)
    fam = doc.get('family')
    if fam == 'values':
        replay_values(doc)
    if fam == 'profile-text':
        replay_profile_text(doc)
    try:
        import replay_families
        h = replay_families.HANDLERS.get(fam)
        if h:
            h(doc, out)
    except ImportError:
        pass
    out(None, 'no handler for family %s' % fam)


if __name__ == '__main__':
    main()
