#!/bin/sh
# tools/seedtest2.sh <seed-id> <property> [more]  : check a seeded change on a scratch worktree (DROOP_REPO), never touching /repo
ID="$1"; shift
D=/tmp/seed/$ID
[ -d "$D" ] || D=/verif/seeded/$ID
W=/tmp/st/$ID
rm -rf "$W"; git -C /repo worktree prune; git -C /repo worktree add -q --detach "$W" HEAD || exit 9
( cd "$W" && git apply "$D/patch.diff" ) || { echo "$ID PATCH DOES NOT APPLY"; git -C /repo worktree remove --force "$W"; exit 8; }
PYTHONPATH="$W" timeout 300 /venv/bin/python "$D/demo.py" >/dev/null 2>&1; echo "$ID demo-with-change exit=$?"
for P in "$@"; do
  ( cd /verif && DROOP_REPO="$W" ./check "$P" --tier quick 2>&1 | grep -E "VIOLATION|UNDECIDED|KNOWN|exit=|fired" | cut -c1-300 | head -6 | sed "s/^/$ID $P: /" )
done
git -C /repo worktree remove --force "$W"
