#!/bin/sh
# run every registered check (optionally updating baselines): tools/runall.sh [--update-baseline]
cd "$(dirname "$0")/.."
for p in $(python3 -c "import json;print(' '.join(c['property_id'] for c in json.load(open('MANIFEST.json'))['checks']))"); do
  ./check $p "$@" 2>&1 | tail -1
done
