#!/usr/bin/env python3
"""tools/seedsummary.py <seed-id> <property> [...]: run the checks on a scratch worktree with the seeded change and
write <seed-dir>/result.json (which checks catch it, through which obligation / monitor)."""
import json, os, re, subprocess, sys
sid = sys.argv[1]
props = sys.argv[2:]
D = '/tmp/seed/%s' % sid
if not os.path.isdir(D):
    D = '/verif/seeded/%s' % sid
W = '/tmp/st/%s' % sid
subprocess.run(['git', '-C', '/repo', 'worktree', 'prune'])
subprocess.run(['rm', '-rf', W])
subprocess.check_call(['git', '-C', '/repo', 'worktree', 'add', '-q', '--detach', W, 'HEAD'])
res = {'seed': sid, 'checks': {}}
try:
    r = subprocess.run(['git', 'apply', os.path.join(D, 'patch.diff')], cwd=W, capture_output=True, text=True)
    if r.returncode != 0:
        res['error'] = 'patch does not apply: ' + r.stderr[-300:]
    else:
        env = dict(os.environ, PYTHONPATH=W)
        d = subprocess.run(['/venv/bin/python', os.path.join(D, 'demo.py')], env=env, capture_output=True, text=True, timeout=600)
        res['demo_exit_with_change'] = d.returncode
        d0 = subprocess.run(['/venv/bin/python', os.path.join(D, 'demo.py')], env=dict(os.environ, PYTHONPATH='/repo'),
                            capture_output=True, text=True, timeout=600) if os.path.exists(os.path.join(D, 'demo.py')) else None
        res['demo_exit_clean_tree'] = d0.returncode if d0 is not None else None
        t = subprocess.run(['/venv/bin/python', '-m', 'pytest', '-q', '-p', 'no:cacheprovider', '--timeout=900'], cwd=W,
                           capture_output=True, text=True, timeout=1800)
        res['tests_with_change'] = (t.stdout.strip().splitlines() or ['?'])[-1]
        subprocess.run(['git', 'checkout', '--', '.'], cwd=W)
        subprocess.run(['git', 'clean', '-fdq'], cwd=W)
        subprocess.run(['git', 'apply', os.path.join(D, 'patch.diff')], cwd=W)
        for p in props:
            env = dict(os.environ, DROOP_REPO=W)
            c = subprocess.run(['./check', p, '--tier', 'quick'], cwd=os.environ.get('VERIF_DIR', '/verif'), env=env, capture_output=True, text=True, timeout=3000)
            out = c.stdout.splitlines()
            viol = [l for l in out if l.startswith('VIOLATION')]
            ref = [l.strip() for l in out if l.strip().startswith(('refuted:', 'bounded monitor fired:'))]
            res['checks'][p] = {'exit': c.returncode, 'violations': len(viol), 'first': [l[:260] for l in ref[:3]],
                                'summary': out[-1][:200] if out else ''}
finally:
    subprocess.run(['git', '-C', '/repo', 'worktree', 'remove', '--force', W])
json.dump(res, open(os.path.join(D, 'result.json'), 'w'), indent=1)
print(sid, {p: (v['exit'], v['violations']) for p, v in res.get('checks', {}).items()}, res.get('error', ''),
      'demo', res.get('demo_exit_with_change'), res.get('demo_exit_clean_tree'), res.get('tests_with_change'))
