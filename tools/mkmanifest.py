#!/usr/bin/env python3
"""Regenerate /verif/MANIFEST.json from the table below (kept in one place so it is always valid)."""
import json
import os

ROOT = os.path.dirname(os.path.dirname(os.path.abspath(__file__)))

COMMON_NOTE = ("Trusted base: CPython semantics as encoded by PyVC (DESIGN 4.2 A-int..A-pow10), PyVC itself (ast->SMT "
               "symbolic executor re-reading /repo on every run; validated by canaries, cover obligations and seeded "
               "changes), z3/cvc5. ")

CHECKS = {
    'C12': dict(
        category='proof',
        text="Every operation of Fixed (all operand kinds, all signs, all scales S>=1, round up/down, error cases) and the "
             "exactness of Rational.mul/div/muldiv are postconditions discharged by z3/cvc5 from the current AST; frames "
             "(operands unmodified) and result class are obligations too; the Fraction re-wrapping loop is a SCAN obligation.",
        design_ref='DESIGN 6/C12, 11.1',
        note=COMMON_NOTE + "stdlib fractions.Fraction is exact (A-lib); Fixed.min/Rational.min delegate to builtin min "
             "(SCAN) over the proved comparisons; integer arithmetic is the instance precision=0 (S=1).",
        technique='contract-based deductive verification: sidecar pre/postconditions on the real functions, VCs generated '
                  'from the AST by PyVC, discharged by z3 (cvc5 on unknown)'),
    'C13': dict(
        category='proof',
        text="Tolerance law of Guarded.__cmp__ and the six operators (postconditions, all operands, all precision/guard), every "
             "comparison recorded in the maxDiff/minDiff statistics (postcondition of __cmp__ and of each operator), "
             "trichotomy as a lemma over those contracts, and guard=0 == Fixed operation by operation (83 lemma checks over "
             "the two classes' contracts incl. round='up'; the bodies of both classes are verified against those contracts in "
             "this check). Clause 3 (quasi-exact equals exact) is not decided.",
        design_ref='DESIGN 6/C13, 11.2',
        note=COMMON_NOTE + "guard=0 equivalence is proved per operation for valid calls (round in {up,down}); lifting it to "
             "whole counts is the argument 'rules reach V only through these operations' (SCAN V-interface). Clause 3 of the "
             "property is a numerical-analysis claim with no per-function contract: not decided.",
        technique='contract-based deductive verification (postconditions + relational lemmas over contracts), z3/cvc5'),
    'C14': dict(
        category='proof',
        text="__str__ of Fixed, Guarded and Rational: the numeral denoted by the produced text (A-fmt model of '%d.%0Nd') "
             "equals the exact value rounded half-up at the display digits, sign included, guard digits after '_'; "
             "__str__ writes nothing (FRAME); renderers route values through str (SCAN).",
        design_ref='DESIGN 6/C14, 11.3',
        note=COMMON_NOTE + "A-fmt: the meaning of '%d.%0Nd' % (a, b) as a decimal numeral is an assumption of the encoding "
             "(replays run the real str() and parse the text).",
        technique='contract-based deductive verification of the three __str__ methods against a denotation contract; '
                  'AST scans for the renderers'),
    'C01': dict(
        category='proof',
        text="count() of wigm (fixed and rational instances), wigm-prf(-batch), cfer(-batch), scotland, mpls, meek/warren (fixed-point and guarded "
             "instances, incl. the iteration loop: the total surplus strictly decreases, so each iteration ends) and qpq (exact rationals; "
             "lexicographic variant over candidates-not-excluded and hopefuls, across restarts) verified against a counter-level contract: the main loop's variant 2*nH+nP decreases (termination), enough candidates remain (W2) is an inductive "
             "invariant, on return nobody is hopeful or pending, the seats are filled and the withdrawn count is untouched; every "
             "call of elect/defeat/unpend meets the writer's precondition (CfER: every pending surplus of a round is transferred in one nested "
             "loop; 'Elect pending' re-elects pending candidates). meek-prf count() is verified in the thorough tier only (161 obligations "
             "incl. the variant of the iteration loop; generation takes ~30 min); in the quick tier it, and the upper bound 'not more than "
             "the seats' for every rule, are covered by the bounded stand-in only.",
        design_ref='DESIGN 6/C01, 11.S, 11.x',
        note=COMMON_NOTE + "Assumed: the election model of candidates.py selectors (Candidates.select/hopeful/... as abstract "
             "lists with ghost cardinalities nH,nE,nD,nW,nP updated at every status write: card-update lemma), the C15 post-parse "
             "invariant of rankings, trusted contracts of batchDefeat (wigm-prf, cfer) and findCertainLosers (mpls) (bounded stand-in). The select model is itself checked against the real body (8 POST obligations). "
             "meek-prf count() body: thorough tier only (quick tier: bounded, labelled). QPQ: ZeroDivisionError is declared possible (its absence rests on the "
             "QPQ ledger invariant, bounded only). Meek/Warren: distributeVotes and batchDefeat are trusted contracts "
             "(frame + 'an elected candidate keeps a positive tally'), termination of iterate() under exact rational arithmetic is not decided, "
             "and arithmetic=integer is outside the rule's domain (its own assertion rejects it). nE <= seats: bounded only.",
        technique='contract-based deductive verification of the real count() bodies (loop invariants declared + Houdini-inferred, '
                  'variants, call-site preconditions), z3; bounded run-time monitors as labelled stand-in'),
    'C02': dict(
        category='proof',
        text="Conservation is proved through the whole count() of wigm (fixed-point and exact instances), wigm-prf, wigm-prf-batch, cfer, cfer-batch, scotland and mpls with a "
             "ghost vote ledger maintained at every store to a tally, the non-transferable total, a ballot's weight or position: after "
             "the first tally the tallies add up to the ballots cast; at every recorded step (every logAction / newRound / elect / "
             "defeat / unpend call site) tallies + non-transferable total <= ballots cast (== under exact arithmetic); no tally and "
             "no non-transferable total is negative; loop invariants of every ballot sweep (what is credited is exactly the value "
             "leaving the excluded candidate's pile / at most value x surplus / tally for a surplus). Step contracts: transfer() of "
             "wigm, wigm-prf, cfer, scotland, mpls, Candidate.addVote / zeroVote, Ballot.advance, Ballot.vote. Meek / Warren: distributeVotes() leaves tallies + residual "
             "== ballots exactly (strict rankings). Batch exclusions (sure losers, 10059(k), write-ins) are covered through the sum of the piles "
             "over the batch. Loss accounting: at every recorded step either nothing was lost since the previous one (no surplus transfer in "
             "between; always under exact arithmetic) or the surplus transfer lost less than one unit per truncation and ballot paper. "
             "meek-prf, qpq and equal rankings: bounded stand-in.",
        design_ref='DESIGN 6/C02, 11.L',
        note=COMMON_NOTE + "Model assumptions of the ledger (DESIGN 11.L): G[c] is the sum of the values of the ballots standing with c "
             "(closing fact of the partial sums; empty-sum and zero-sum lemmas), sum of multipliers == nBallots (C15 post-parse "
             "invariant), candidate ids distinct. The per-transfer loss bounds are proved step by step; their closed-form sum over a whole "
             "count is not formed. Sum over a batch: uninterpreted sum with its update law; all-zero "
             "and pointwise-equal lemmas used assert-then-assume. meek-prf, qpq, equal rankings: bounded monitor only (labelled bounded; never counted as proved). meek-prf's "
             "post-exclusion snapshots are outside the monitor (DESIGN 6.0 item 3).",
        technique='contract-based deductive verification of the real count() bodies with a ghost vote ledger (loop invariants of the '
                  'ballot sweeps, call-site obligations at every recorded step), transfer closures and Meek distribution under contract; '
                  'z3/cvc5; bounded ledger monitor as labelled stand-in for the other rules'),
    'C04': dict(
        category='proof',
        text="calcQuota of wigm (integer_quota / exact / guarded / fixed cases), scotland, mpls, wigm-prf, cfer against the "
             "prescribed formula for every ballots/seats; hasQuota comparator direction of all six rules (strict iff exact); at "
             "every single-exclusion site of wigm, wigm-prf and scotland the excluded candidate does not hold a quota (site "
             "obligation using the election loop's postcondition); the epsilon the fixed-point quotas add is one unit in the last "
             "working place (postcondition of Fixed.initialize, from any prior class state).",
        design_ref='DESIGN 6/C04, 11.8',
        note=COMMON_NOTE + "Meek-family quota recomputation and QPQ quota, and the not-excluded clause for cfer/mpls: bounded only.",
        technique='contract-based deductive verification (closure postconditions; site obligations inside count()), z3'),
    'C06': dict(
        category='proof',
        text="transfer(): the ballot moves to the first hopeful candidate of its ranking, every candidate passed over is not "
             "hopeful (loop invariant + variant), exactly its value is credited and the value it carries moves with it (ghost pile "
             "G). Inside the verified count() bodies of wigm, wigm-prf, cfer, scotland, mpls: at every store to a ballot's weight the "
             "new value is in [0, old], new x tally <= old x surplus (rounded down, never up) and short of it by less than one unit per "
             "truncation (exactly equal under exact arithmetic). Main-loop invariants of wigm, wigm-prf(-batch), cfer(-batch), scotland, mpls: every continuing "
             "candidate's tally equals the value of the ballots standing with that candidate (W6, ghost piles), a candidate whose "
             "surplus was transferred holds exactly the quota, an excluded candidate holds nothing; surplus and exclusion sweeps leave "
             "every other candidate's tally-minus-pile unchanged and end with no ballot standing with the swept candidate.",
        design_ref='DESIGN 6/C06, 11.L',
        note=COMMON_NOTE + "W6 (tally == value of the ballots standing with the candidate) rests on the ledger model assumptions of DESIGN "
             "11.L; the bounded monitor re-checks it at every recorded action of every rule (labelled).",
        technique='contract-based deductive verification of transfer()/Ballot methods and of the count() bodies (ghost piles per '
                  'candidate, sweep invariants); bounded tally monitor as cross-check'),
    'C07': dict(
        category='proof',
        text="breakTie of wigm, wigm-prf, meek, mpls, qpq: result is a tied candidate, a single candidate is returned silently, "
             "otherwise the first in tie-break order and a 'tie' action is logged (postconditions, any tied list); the Scottish breakTie "
             "(rules 49/51) is proved against its statutory contract: the most recent earlier stage whose saved tallies single one tied "
             "candidate out (fewest for an exclusion, most for a surplus) decides, else the lot (loop invariant over the saved rounds, "
             "model of E.rounds backed by SCAN obligations on who writes it); at the single-exclusion sites of wigm, wigm-prf, scotland the excluded candidate has a lowest hopeful tally and the surplus "
             "transferred first is a largest one (site obligations); under QPQ the candidate excluded has a smallest and the one elected a "
             "largest quotient among the hopefuls (site obligations); tie order is read only by byTieOrder (SCAN).",
        design_ref='DESIGN 6/C07, 11.10',
        note=COMMON_NOTE + "Sure-loser batches (batchDefeat / findCertainLosers: trusted contracts) and meek-family exclusion "
             "sites: bounded monitor only (labelled). A-rounds: E.rounds[n] is the copy of the candidates saved when round n+1 began "
             "(SCAN: single appender under tag 'round', newRound increments and logs); candidate ids are distinct (A-profile).",
        technique='contract-based deductive verification (closure postconditions with quantified tie-order clause, site '
                  'obligations), AST scan for tie-order reads; bounded monitor as stand-in'),
    'C09': dict(
        category='proof',
        text="Candidate.elect/defeat/unpend/unelect verified (state change + logged action + ghost counters); every call site in "
             "wigm, wigm-prf, scotland, mpls, meek/warren, qpq count() satisfies the writer's precondition (qpq: unelect only of elected "
             "candidates, only in the restart block) (hopeful -> elected/defeated, elected&pending "
             "for unpend); .state/.pending/E.round have single writers (SCAN); newRound only increments; W2 invariant as in C01.",
        design_ref='DESIGN 6/C09, 11.11',
        note=COMMON_NOTE + "Call sites in cfer, meek-prf and 'elected never exceed seats': bounded monitor only.",
        technique='contract-based deductive verification (status-writer contracts, call-site preconditions in count()), AST '
                  'single-writer scans; bounded transition monitor as stand-in'),
    'C03': dict(
        category='proof',
        text="Clauses the modules reproduce as ## statute text are proved where they are per-function: forced arithmetic/precision of "
             "each statutory rule (options() contracts), quota formulas and election comparators (closure contracts), and the shape "
             "of each transfer-value expression (order of operations, rounding placement: SCAN on the AST). 'The whole history "
             "equals an independent execution of the statute' is not decided; wigm[fixed,p4] == wigm-prf is a bounded cross-check.",
        design_ref='DESIGN 6/C03, 11.12',
        note=COMMON_NOTE + "Not decided: stage-by-stage conformance of complete histories (needs a second implementation = a model). "
             "Known deviation recorded in DESIGN 8 (F12: cfer/mpls transfer value truncation order versus the quoted clause).",
        technique='contract-based deductive verification of per-clause contracts + AST scans of clause-annotated statements; '
                  'bounded cross-check wigm(fixed,4) vs wigm-prf'),
    'C08': dict(
        category='proof',
        text="The keep/weight step of meek and warren (kw_meekOpenSTV, kw_warren) is proved for all operands: no negative keep value "
             "or weight, a ballot never hands out more than it holds (Warren: exactly); iterate()'s exit statuses and 'exclusion "
             "only after the end of an iteration' are SCAN obligations on the AST. distributeVotes() of meek/warren is verified against "
             "M1 for strict rankings: afterwards all tallies + the residual == ballots cast, exactly, for both keep/weight variants "
             "(ghost total, per-ballot invariant 'handed out + own residual == papers', zero-sum lemma after the reset loop). "
             "Equal rankings (recursive split), keep factors by status and the convergence exit are checked by the bounded monitor.",
        design_ref='DESIGN 6/C08, 11.13',
        note=COMMON_NOTE + "M1 is proved at the level of distributeVotes() (the callers in count() still use its trusted frame contract); "
             "meek-prf iterateStep, equal rankings, and kf <= 1 for elected candidates: bounded monitor only.",
        technique='contract-based deductive verification of the keep/weight closures and of the distribution sweep (ghost total); AST scans; '
                  'bounded snapshot monitor'),
    'C10': dict(
        category='proof',
        text="Ballot.vote == weight x multiplier exactly (contract, all arithmetics) so splitting a multiplier cannot change a value; "
             "inside every sweep over the ballots non-ballot state is updated only by += on exact sums and no local is carried from one "
             "ballot to the next (SCAN: 43 loops), no rule reads a ballot's position or line number, a new weight never depends on the multiplier. Text layout / comments / nicknames: "
             "bounded re-presentation monitor.",
        design_ref='DESIGN 6/C10, 11.14',
        note=COMMON_NOTE + "Commutation of the sweeps is argued from the additive-update scan (not a relational SMT proof); tokenizer "
             "invariance is bounded only. Known finding: guarded maxDiff/minDiff statistic lines of the report vary with splits.",
        technique='contract-based deductive verification of Ballot.vote + AST scans of ballot sweeps; bounded presentation variants'),
    'C11': dict(
        category='exploration',
        text="Bounded: every permutation of candidate ids (n<=3; 3 random ones above) with names, tie order and ballots carried along "
             "must give the same winners by name and final tallies; withdrawn must equal deleted (record compared modulo the "
             "withdrawn candidate's descriptor lines) over the exhaustive tiny + seeded random profile domain x 11 rules. A few "
             "enabling facts are discharged as SCAN obligations (ids only compared for equality, withdrawn never hopeful, withdrawn "
             "stripped at parse).",
        design_ref='DESIGN 6/C11, 11.15',
        note="Bounded stand-in (labelled); the relational statement itself is not proved. Domain bounds are in the evidence rule text.",
        technique='bounded exhaustive/seeded run-time comparison on the real code (stand-in); AST scans for the enabling facts'),
    'C15': dict(
        category='exploration',
        text="Bounded: election structures (<=5 candidates, equal rankings, withdrawn/undeclared, tie orders, nicknames, awkward names, "
             "source/comment) rendered in 4 layouts x numbers/nicknames x multipliers/ballot ids are parsed back and compared with "
             "the structure, plus the post-parse invariants. Proved: getCid returns an id in 1..nCand or raises the profile error "
             "(contract, all token kinds); array typecode / withdrawn range (SCAN).",
        design_ref='DESIGN 6/C15, 11.16',
        note="Sentence 1 (faithful recovery over all renderings) is bounded only. The parser's token loop is outside the verified subset.",
        technique='bounded structure -> render -> parse round trip on the real parser; contract proof of getCid'),
    'C16': dict(
        category='proof',
        text="Definite assignment of every local on all CFG paths including exception edges for every function of profile.py, "
             "election.py, options.py, candidate(s).py (DEF obligations: this is what found the UnboundLocalError); every raise site "
             "raises ElectionProfileError, bltParse converts StopIteration and ValueError, int() only after a digits test (SCAN); "
             "getCid exception contract. Token soups / truncations / mutations are the bounded fuzz stand-in.",
        design_ref='DESIGN 6/C16, 11.17',
        note=COMMON_NOTE + "Exception freedom of the whole token loop (subscripts, formats, next()) is not discharged by SMT: it rests "
             "on the scans above plus the bounded fuzz (labelled). MemoryError / RecursionError not modelled.",
        technique='deductive definite-assignment analysis over the CFG with exception edges + AST scans + contract proof of getCid; '
                  'bounded fuzz as stand-in'),
    'C18': dict(
        category='proof',
        text="Candidate.elect/defeat/unpend change the status and log an action naming that candidate in the same call "
             "(postconditions with the ghost log); Election.logAction and ElectionRecord.action are verified, not assumed: every call "
             "appends exactly one action carrying the given tag and message, complete (round, state snapshot, totals, quota in place and "
             "the rule's recording hook run) at the moment it is appended; the four rule hooks (ElectionRule/MethodWIGM/MethodMeek/qpq "
             ".action) are each proved never to remove or rewrite those entries (behavioural subtyping); key-safety of the renderers (every key read from an action/candidate state is "
             "written), 'end' is the last action, every rule begins with begin/count, one dump row per action (SCAN). Agreement of "
             "report, dump and JSON with the record on every status/tally/quota: bounded monitor parsing the three renderings back.",
        design_ref='DESIGN 6/C18, 11.18',
        note=COMMON_NOTE + "ElectionRecord.report/dump/json, _fill, Candidates.cState/copy are trusted contracts (nested dict/list "
             "text building outside the subset; _fill's frame is a SCAN obligation); cross-agreement of the renderings is bounded only. "
             "The action list is modelled by the ghost log (count, last tag/message, completeness); header entries are not modelled.",
        technique='contract-based deductive verification of the status writers (change-and-log), AST scans of record.py; bounded '
                  'rendering cross-check'),
    'C19': dict(
        category='proof',
        text="Election.report/dump/json log the interruption marker exactly once whichever are called (contracts on the three "
             "methods); ElectionRecord.action appends an action only when it is complete (postcondition: all entries present "
             "and the rule hook already run, for every tag; proved on the real body), record['actions'] is only appended to, the header is filled "
             "on demand before any header key is read, no clock/random/IO in the package, the command-line driver passes the flag set in its "
             "KeyboardInterrupt handler to each of report/dump/json (SCAN). Every interruption point is then "
             "exercised by the bounded settrace monitor (KeyboardInterrupt at the k-th line event).",
        design_ref='DESIGN 6/C19, 11.19',
        note=COMMON_NOTE + "'Renderable at every write boundary' is argued from complete-at-append (proved) + append-only (SCAN) + "
             "header-on-demand (SCAN) plus the bounded interruption monitor; not an SMT invariant over the rendered text.",
        technique='contract-based deductive verification of the marker protocol + AST scans of the record; bounded interruption '
                  'at every line event as stand-in'),
    'C17': dict(
        category='proof',
        text="Option precedence as postconditions of Options.getopt/setopt/normalize (force > caller > file > default, for every "
             "content of the four layers); every statutory rule's options() proved to force its statutory arithmetic, precision, "
             "display (guard, omega) whatever the caller/file layers hold; SCAN obligations: statutory modules read no other "
             "option, their count() reads none, merge order in Election.__init__.",
        design_ref='DESIGN 6/C17, 11.4',
        note=COMMON_NOTE + "'identical count whatever options are supplied' is the composition forced-values (proved) + "
             "option-read frame (SCAN) + no hidden state (C20). Options.record/unused/overrides (the reporting half of sentence 1) are "
             "proved too (a fresh dictionary with a copy of each layer and the effective value of every name; membership of the unused / "
             "overridden lists for an arbitrary name); Options.update/parse (command-line splitting) are not under contract.",
        technique='contract-based deductive verification (dictionaries as SMT arrays), AST scans for the option-read frame'),
    'C20': dict(
        category='proof',
        text="initialize() of Fixed, Guarded and Rational verified from an ARBITRARY prior class state: the class invariant and "
             "precision/guard/display are functions of the options alone, no class attribute is read before it is assigned and "
             "every attribute is reassigned on every returning path (REL obligations per path); ArithmeticClass dispatch; SCAN "
             "obligations: class attributes written nowhere else, no module-level mutable state, rule class constants never "
             "assigned, the profile is read-only for Election and the rules.",
        design_ref='DESIGN 6/C20, 11.5',
        note=COMMON_NOTE + "Guarded.epsilon (guard>0) and Guarded.__scaledg (display<=precision) may keep an older value: their "
             "readers are shown not to depend on it (V.epsilon is read only when not V.exact: site obligation; __str__ is proved for "
             "every value of __scaledg in that case). Byte-for-byte record equality is the composition of these with determinism of "
             "count() (no clock/random/IO: SCAN under C19).",
        technique='contract-based deductive verification of initialize() from a havocked class state (non-interference as '
                  'per-path read-before-write / all-assigned obligations) plus AST scans'),
}

NOT_APPLICABLE = {
    'C05': "Droop proportionality is the STV proportionality theorem: a whole-count induction over conservation, exclusion "
           "order and quota relations for every rule variant; no function contract within reach decides it (DESIGN 6/C05). "
           "Its local building blocks are proved under C02/C04/C06/C07.",
}

PENDING = "under construction in this session (see DESIGN 10 build order); not claimed yet"


def main():
    props = [json.loads(l)['id'] for l in open(os.path.join(ROOT, 'properties.jsonl'))]
    checks = []
    for pid in props:
        c = CHECKS.get(pid)
        if not c:
            continue
        checks.append({
            'property_id': pid,
            'quick_cmd': './check %s --tier quick' % pid,
            'thorough_cmd': './check %s --tier thorough' % pid,
            'evidence_file': 'evidence/%s.json' % pid,
            'replay_cmd_template': '/venv/bin/python replay_native.py {path}',
            'engine': 'pyvc',
            'level_claimed': {'category': c['category'], 'text': c['text'], 'design_ref': c['design_ref']},
            'level_note': c['note'],
            'technique': c['technique'],
        })
    na = []
    for pid in props:
        if pid in CHECKS:
            continue
        na.append({'property_id': pid, 'reason': NOT_APPLICABLE.get(pid, PENDING)})
    doc = {
        'version': 1,
        'setup_cmd': 'python3-vt -m compileall -q pyvc >/dev/null 2>&1; true',
        'hooks': {
            'guard': 'DROOP_VERIF',
            'enable': 'none needed: contracts, models and monitors are sidecars under /verif; checks read /repo\'s working tree '
                      'and never edit it',
            'baseline_off_cmd': 'cd /repo && /venv/bin/python -m pytest -ra -q -p no:cacheprovider --timeout=900 '
                                '--continue-on-collection-errors',
            'source_commits': [],
            'add_only': True,
        },
        'engines': [{'name': 'pyvc', 'path': 'pyvc/', 'serves_properties': sorted(CHECKS),
                     'kind_free_text': 'ast -> SMT verification-condition generator for the Python subset droop uses, '
                                       'sidecar contracts in contracts/, z3 + cvc5 back ends, native replay of counter-models'}],
        'checks': checks,
        'notes': 'Fix commits in /repo: see known_findings.json ("fixed" entries). exit codes of ./check: 0 held, 1 violation, '
                 '2 undecided, 3 checker crash.',
        'not_applicable': na,
    }
    with open(os.path.join(ROOT, 'MANIFEST.json'), 'w') as f:
        json.dump(doc, f, indent=1)
    print('MANIFEST.json: %d checks, %d not claimed' % (len(checks), len(na)))


if __name__ == '__main__':
    main()
