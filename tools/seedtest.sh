#!/bin/sh
# tools/seedtest.sh <seed-dir> <property> [more properties]   : apply the seeded change to /repo, run the checks, undo
D="$1"; shift
cd /repo || exit 9
git diff --quiet || { echo "/repo has uncommitted changes"; exit 9; }
git apply "$D/patch.diff" || { echo "PATCH DOES NOT APPLY"; exit 8; }
echo "== demo with change:"; PYTHONPATH=/repo timeout 300 /venv/bin/python "$D/demo.py" >/tmp/seed_demo.out 2>&1; echo "   demo exit=$?"
for P in "$@"; do
  ( cd /verif && ./check "$P" --tier quick 2>&1 | grep -E "VIOLATION|UNDECIDED|KNOWN|exit=|refuted|fired" | cut -c1-260 | head -8 )
done
git checkout -- .
echo "== demo without change:"; PYTHONPATH=/repo timeout 300 /venv/bin/python "$D/demo.py" >/dev/null 2>&1; echo "   demo exit=$?"
