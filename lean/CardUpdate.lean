/-
Lemmas behind the ghost counters of the election model (DESIGN 5.1, 11.0 "Election model").
The engine keeps nH nE nD nW (number of candidates per status) as integer ghosts and updates them at every
write of `Candidate.state`; the two facts it uses are proved here for any finite set of candidates and any
status function:

  card_update : writing status `v` to candidate `a` changes the number of candidates with status `n`
                by  [v = n] - [old status of a = n]
  card_pos    : a candidate with status `n` makes that number positive
-/
import Mathlib

open Finset

theorem card_update {α σ : Type*} [DecidableEq α] [DecidableEq σ]
    (C : Finset α) (s : α → σ) (a : α) (ha : a ∈ C) (v n : σ) :
    ((C.filter (fun c => Function.update s a v c = n)).card : ℤ)
      = ((C.filter (fun c => s c = n)).card : ℤ) + (if v = n then 1 else 0) - (if s a = n then 1 else 0) := by
  classical
  have hC : C = insert a (C.erase a) := (Finset.insert_erase ha).symm
  have hne : ∀ c ∈ C.erase a, Function.update s a v c = s c := by
    intro c hc
    have : c ≠ a := (Finset.mem_erase.mp hc).1
    simp [Function.update, this]
  have hrest : (C.erase a).filter (fun c => Function.update s a v c = n)
      = (C.erase a).filter (fun c => s c = n) := by
    apply Finset.filter_congr
    intro c hc
    rw [hne c hc]
  have hnot1 : a ∉ (C.erase a).filter (fun c => Function.update s a v c = n) := by
    simp
  have hnot2 : a ∉ (C.erase a).filter (fun c => s c = n) := by
    simp
  have e1 : (C.filter (fun c => Function.update s a v c = n)).card
      = ((C.erase a).filter (fun c => s c = n)).card + (if v = n then 1 else 0) := by
    conv_lhs => rw [hC]
    rw [Finset.filter_insert]
    by_cases hv : v = n
    · have h : Function.update s a v a = n := by simp [hv]
      rw [if_pos h, Finset.card_insert_of_notMem hnot1, hrest, if_pos hv]
    · have h : ¬ Function.update s a v a = n := by simp [hv]
      rw [if_neg h, hrest, if_neg hv, Nat.add_zero]
  have e2 : (C.filter (fun c => s c = n)).card
      = ((C.erase a).filter (fun c => s c = n)).card + (if s a = n then 1 else 0) := by
    conv_lhs => rw [hC]
    rw [Finset.filter_insert]
    by_cases hs : s a = n
    · rw [if_pos hs, Finset.card_insert_of_notMem hnot2, if_pos hs]
    · rw [if_neg hs, if_neg hs, Nat.add_zero]
  rw [e1, e2]
  push_cast
  split_ifs <;> ring

theorem card_pos {α σ : Type*} [DecidableEq σ]
    (C : Finset α) (s : α → σ) (a : α) (ha : a ∈ C) (n : σ) (h : s a = n) :
    0 < (C.filter (fun c => s c = n)).card := by
  apply Finset.card_pos.mpr
  exact ⟨a, Finset.mem_filter.mpr ⟨ha, h⟩⟩
