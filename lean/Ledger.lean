/-
Lemmas behind the vote-ledger ghosts of DESIGN 11.L / 11.M.

The engine keeps, while a contract marked `ledger=True` is verified,
  T      = Σ_c vote c + exhausted                       (all tallies and the non-transferable total)
  G c    = Σ_{b, top b = c} value b                      (the pile of candidate c: value of the ballots standing with c)
  sumB A = Σ_{c ∈ B} A c                                 (a sum over a batch B of candidates)
as ghosts that are *updated* at every store, and uses a handful of facts about finite sums as SMT axioms
(always assert-then-assume: the premise is an obligation of the same run).  Each of those facts is proved here for an
arbitrary finite set of candidates / ballots and values in an ordered commutative ring (ℤ for the scaled instance,
ℚ for the exact one).

  tally_update        Σ_c (update vote a x) c = Σ_c vote c + x - vote a                  (T follows a tally store)
  sumB_update         Σ_{c∈B} (update A i x) c = Σ_{c∈B} A c + (if i ∈ B then x - A i else 0)   (update law of sumB)
  sumB_all_zero       (∀ c ∈ B, A c = 0) → Σ_{c∈B} A c = 0                               (all-zero lemma, zero-sum lemma)
  sumB_pointwise      (∀ c ∈ B, A c = A' c) → Σ_{c∈B} A c = Σ_{c∈B} A' c                 (pointwise-equal lemma)
  pile_empty          (∀ b ∈ ballots, top b ≠ c) → pile c = 0                            (empty-sum lemma)
  pile_move           moving ballot b from the candidate it stands with to another one moves its value between the piles
  pile_reweight       changing the value of ballot b changes the pile it stands with by the difference
  piles_total         Σ_c pile c = Σ_b value b   when every ballot stands with a candidate of C      (closing fact of tsum)
  prefix_sum_closing  the positional partial sums over an enumeration of the ballots end at the pile  (closing fact of psum)
-/
import Mathlib

set_option linter.unusedSectionVars false

open Finset

variable {α β R : Type*} [DecidableEq α] [DecidableEq β] [CommRing R]

theorem tally_update (C : Finset α) (vote : α → R) (a : α) (ha : a ∈ C) (x : R) :
    ∑ c ∈ C, Function.update vote a x c = ∑ c ∈ C, vote c + x - vote a := by
  classical
  rw [Finset.sum_update_of_mem ha]
  have h : ∑ c ∈ C, vote c = vote a + ∑ c ∈ C \ {a}, vote c := by
    rw [← Finset.sum_erase_add _ _ ha, Finset.sdiff_singleton_eq_erase, add_comm]
  rw [h]; ring

theorem sumB_update (B : Finset α) (A : α → R) (i : α) (x : R) :
    ∑ c ∈ B, Function.update A i x c = ∑ c ∈ B, A c + (if i ∈ B then x - A i else 0) := by
  classical
  by_cases hi : i ∈ B
  · rw [if_pos hi, tally_update B A i hi x]; ring
  · rw [if_neg hi, add_zero]
    apply Finset.sum_congr rfl
    intro c hc
    have : c ≠ i := fun h => hi (h ▸ hc)
    simp [Function.update, this]

theorem sumB_all_zero (B : Finset α) (A : α → R) (h : ∀ c ∈ B, A c = 0) : ∑ c ∈ B, A c = 0 :=
  Finset.sum_eq_zero h

theorem sumB_pointwise (B : Finset α) (A A' : α → R) (h : ∀ c ∈ B, A c = A' c) :
    ∑ c ∈ B, A c = ∑ c ∈ B, A' c :=
  Finset.sum_congr rfl h

/-- the pile of candidate `c`: value of the ballots standing with `c` -/
def pile (ballots : Finset β) (top : β → α) (value : β → R) (c : α) : R :=
  ∑ b ∈ ballots.filter (fun b => top b = c), value b

theorem pile_empty (ballots : Finset β) (top : β → α) (value : β → R) (c : α)
    (h : ∀ b ∈ ballots, top b ≠ c) : pile ballots top value c = 0 := by
  classical
  unfold pile
  have : ballots.filter (fun b => top b = c) = ∅ := by
    apply Finset.filter_eq_empty_iff.mpr
    intro b hb; exact h b hb
  rw [this, Finset.sum_empty]

theorem pile_reweight (ballots : Finset β) (top : β → α) (value : β → R) (b0 : β) (hb : b0 ∈ ballots) (x : R) (c : α) :
    pile ballots top (Function.update value b0 x) c
      = pile ballots top value c + (if top b0 = c then x - value b0 else 0) := by
  classical
  unfold pile
  by_cases hc : top b0 = c
  · have hm : b0 ∈ ballots.filter (fun b => top b = c) := Finset.mem_filter.mpr ⟨hb, hc⟩
    rw [if_pos hc, tally_update _ value b0 hm x]; ring
  · rw [if_neg hc, add_zero]
    apply Finset.sum_congr rfl
    intro b hbm
    have : b ≠ b0 := by
      intro h; subst h; exact hc (Finset.mem_filter.mp hbm).2
    simp [Function.update, this]

theorem pile_move (ballots : Finset β) (top : β → α) (value : β → R) (b0 : β) (hb : b0 ∈ ballots) (t' : α) (c : α) :
    pile ballots (Function.update top b0 t') value c
      = pile ballots top value c - (if top b0 = c then value b0 else 0) + (if t' = c then value b0 else 0) := by
  classical
  unfold pile
  have split : ∀ (tp : β → α), ∑ b ∈ ballots.filter (fun b => tp b = c), value b
      = (if tp b0 = c then value b0 else 0) + ∑ b ∈ (ballots.erase b0).filter (fun b => tp b = c), value b := by
    intro tp
    conv_lhs => rw [← Finset.insert_erase hb]
    rw [Finset.filter_insert]
    by_cases h : tp b0 = c
    · rw [if_pos h, if_pos h, Finset.sum_insert]
      simp
    · rw [if_neg h, if_neg h, zero_add]
  rw [split (Function.update top b0 t'), split top]
  have hrest : (ballots.erase b0).filter (fun b => Function.update top b0 t' b = c)
      = (ballots.erase b0).filter (fun b => top b = c) := by
    apply Finset.filter_congr
    intro b hbm
    have : b ≠ b0 := (Finset.mem_erase.mp hbm).1
    simp [Function.update, this]
  rw [hrest]
  simp only [Function.update_self]
  ring

theorem piles_total (C : Finset α) (ballots : Finset β) (top : β → α) (value : β → R)
    (h : ∀ b ∈ ballots, top b ∈ C) :
    ∑ c ∈ C, pile ballots top value c = ∑ b ∈ ballots, value b := by
  classical
  unfold pile
  exact Finset.sum_fiberwise_of_maps_to h _

/-- positional partial sums over an enumeration `e : Fin n → β` of the ballots (a bijection onto `ballots`):
    the sum over all positions of the values of the ballots standing with `c` is the pile of `c` -/
theorem prefix_sum_closing (n : ℕ) (e : Fin n → β) (ballots : Finset β) (top : β → α) (value : β → R) (c : α)
    (hinj : Function.Injective e) (himg : Finset.univ.image e = ballots) :
    ∑ j : Fin n, (if top (e j) = c then value (e j) else 0) = pile ballots top value c := by
  classical
  unfold pile
  rw [← himg, Finset.sum_filter, Finset.sum_image]
  intro x _ y _ hxy
  exact hinj hxy
