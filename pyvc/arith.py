"""
The arithmetic *interface* used by rule code (DESIGN 4.6).  A value of the election's class V is
an SVal; the class itself is the special value SVClass.  Three instances:

  scaled   Fixed / integer / Guarded with guard == 0: stored Int units, scale S >= 1,
           products and quotients truncated toward minus infinity (round='up': ceiling),
           exact comparisons, V.exact False, V.epsilon one unit
  guarded  Guarded with guard > 0: stored Int units, S = P*G, truncation (round ignored),
           tolerant comparisons (equal iff 2|a-b| < G), V.exact True
  real     Rational: exact field arithmetic over Real, V.exact True

That Fixed / Guarded / Rational implement this interface is what the L1 contracts prove
(values_fixed.py, values_guarded.py, values_rational.py).
"""
import z3
from .sv import *      # noqa

SCALE = z3.Int('V_scale')       # S
GUARD = z3.Int('V_G')           # G  (guarded instance)


class SVClass(SV):
    kind = 'vclass'

    def __repr__(self):
        return 'SVClass'


VCLASS = SVClass()


def scale_facts(st, ex):
    if st.ghost.get('scale_facts'):
        return
    st.ghost['scale_facts'] = True
    st.assume(SCALE >= 1)
    if ex.instance == 'guarded':
        st.assume(GUARD >= 10)
        st.assume(GUARD % 2 == 0)
        st.assume(SCALE >= GUARD)
        st.assume(SCALE % GUARD == 0)


def lift(C, x, st):
    "operand -> stored term"
    ex = C.ex
    if isinstance(x, SVal):
        return x.t
    if isinstance(x, (SInt, SBool)):
        t = x.t if isinstance(x, SInt) else z3.If(x.t, 1, 0)
        if ex.instance == 'real':
            return z3.ToReal(t)
        scale_facts(st, ex)
        return t * SCALE
    raise Unsupported('arithmetic operand %r' % (x,))


def fresh_val(ex, base='q'):
    return fresh_real(base) if ex.instance == 'real' else fresh_int(base)


def floor_div(C, num, den, st, base='q', up=False):
    "q = floor(num/den) (ceil when up) for Int terms, den != 0 assumed; introduced by bounds"
    q = fresh_int(base)
    if up:
        st.assume(z3.Or(z3.And(den > 0, (q - 1) * den < num, num <= q * den),
                        z3.And(den < 0, (q - 1) * den > num, num >= q * den)))
    else:
        st.assume(z3.Or(z3.And(den > 0, q * den <= num, num < (q + 1) * den),
                        z3.And(den < 0, q * den >= num, num > (q + 1) * den)))
    return q


def val_binop(C, on, a, b, st, fr, node=None):
    ex = C.ex
    real = ex.instance == 'real'
    if on in ('Add', 'Sub'):
        x, y = lift(C, a, st), lift(C, b, st)
        return ex.ok(SVal(x + y if on == 'Add' else x - y), st)
    if on == 'Mult':
        if isinstance(a, SVal) and isinstance(b, SVal):
            if real:
                return ex.ok(SVal(a.t * b.t), st)
            scale_facts(st, ex)
            return ex.ok(SVal(floor_div(C, a.t * b.t, SCALE, st, 'prod')), st)
        v, k = (a, b) if isinstance(a, SVal) else (b, a)
        if isinstance(k, (SInt, SBool)):
            if not isinstance(a, SVal):
                # int * V : Fixed/Guarded define no __rmul__ -> TypeError; Rational does
                if not real:
                    return ex.exc('TypeError', st)
            kt = k.t if isinstance(k, SInt) else z3.If(k.t, 1, 0)
            return ex.ok(SVal(v.t * (z3.ToReal(kt) if real else kt)), st)
    if on in ('Div', 'FloorDiv'):
        if not isinstance(a, SVal):
            if not real:
                return ex.exc('TypeError', st)
        x = lift(C, a, st)
        if isinstance(b, SVal):
            def ok(s):
                if real:
                    if on == 'FloorDiv':
                        raise Unsupported('// on rationals')
                    return ex.ok(SVal(x / b.t), s)
                scale_facts(s, ex)
                return ex.ok(SVal(floor_div(C, x * SCALE, b.t, s, 'quot')), s)
            return ex.split(b.t == 0, st, lambda s: ex.exc('ZeroDivisionError', s), ok)
        if isinstance(b, (SInt, SBool)):
            kt = b.t if isinstance(b, SInt) else z3.If(b.t, 1, 0)

            def ok2(s):
                if real:
                    return ex.ok(SVal(x / z3.ToReal(kt)), s)
                return ex.ok(SVal(floor_div(C, x, kt, s, 'quot')), s)
            return ex.split(kt == 0, st, lambda s: ex.exc('ZeroDivisionError', s), ok2)
    raise Unsupported('V-arithmetic %s on %r, %r' % (on, a, b))


def tol_eq(a, b):
    d = a - b
    return 2 * z3.If(d >= 0, d, -d) < GUARD


def val_compare(C, on, a, b, st, fr, node=None):
    ex = C.ex
    if not (isinstance(a, SVal) and isinstance(b, SVal)):
        if isinstance(a, SNone) or isinstance(b, SNone):
            if on in ('Eq', 'NotEq'):
                return ex.ok(SBool(on == 'NotEq'), st)
        # comparison of a V value with an int: Fixed/Guarded read other._value -> AttributeError
        if ex.instance == 'real' and isinstance(b, (SInt,)) and isinstance(a, SVal):
            b = SVal(z3.ToReal(b.t))
        elif ex.instance == 'real' and isinstance(a, (SInt,)) and isinstance(b, SVal):
            a = SVal(z3.ToReal(a.t))
        else:
            raise Unsupported('comparison of V value with %r' % (b if isinstance(a, SVal) else a,))
    x, y = a.t, b.t
    if ex.instance == 'guarded':
        scale_facts(st, ex)
        eq = tol_eq(x, y)
        r = {'Eq': eq, 'NotEq': z3.Not(eq), 'Lt': z3.And(z3.Not(eq), x < y), 'LtE': z3.Or(eq, x < y),
             'Gt': z3.And(z3.Not(eq), x > y), 'GtE': z3.Or(eq, x > y)}[on]
        hk = ex.hooks.get('guarded_compare')
        if hk:
            hk(st, x, y)
        return ex.ok(SBool(r), st)
    return ex.ok(SBool(ex.intcmp(on, x, y)), st)


def val_getattr(C, v, attr, st, fr):
    ex = C.ex
    if attr == '_value' and ex.instance != 'real':
        return ex.ok(SInt(v.t), st)
    if ex.instance == 'real' and attr in ('numerator', 'denominator'):
        key = ('numden', v.t.get_id())
        nd = st.ghost.get(key)
        if nd is not None and not nd[2].eq(v.t):
            nd = None
        if nd is None:
            n, m = fresh_int('num'), fresh_int('den')
            st.assume(m >= 1)
            st.assume(z3.ToReal(n) == v.t * z3.ToReal(m))
            nd = (n, m, v.t)
            st.ghost[key] = nd
        return ex.ok(SInt(nd[0] if attr == 'numerator' else nd[1]), st)
    return None


def vclass_getattr(C, attr, st, fr):
    ex = C.ex
    inst = ex.instance
    if attr in ('exact',):
        return ex.ok(SBool(inst in ('guarded', 'real')), st)
    if attr == 'quasi_exact':
        return ex.ok(SBool(inst == 'guarded'), st)
    if attr == 'epsilon':
        if inst == 'scaled':
            scale_facts(st, ex)
            return ex.ok(SVal(z3.IntVal(1)), st)
        hk = ex.hooks.get('epsilon_read')
        if hk:
            hk(st, fr)
        return ex.ok(SVal(fresh_val(ex, 'stale_epsilon')), st)
    if attr == 'name':
        if inst == 'real':
            return ex.ok(SStr(lit='rational'), st)
        if inst == 'guarded':
            return ex.ok(SStr(lit='guarded'), st)
        # Fixed.initialize: 'integer' when precision is 0, else 'fixed'
        nm = st.ghost.setdefault('V_name', fresh_int('V_name'))
        st.assume(z3.Or(nm == SStr(lit='fixed').t, nm == SStr(lit='integer').t))
        return ex.ok(SStr(t=nm), st)
    if attr in ('mul', 'div', 'muldiv', 'min', 'report', 'initialize'):
        return ex.ok(SBuiltin('V.' + attr), st)
    if attr == 'info':
        return ex.ok(SStr(), st)
    if attr in ('precision', 'display', 'guard'):
        return ex.ok(SInt(st.ghost.setdefault('V_' + attr, fresh_int('V_' + attr))), st)
    raise Unsupported('attribute %s of the arithmetic class' % attr)


def vclass_call(C, args, kwargs, st, fr):
    "V(x)"
    ex = C.ex
    x = args[0]
    if isinstance(x, SVal):
        return ex.ok(x, st)
    return ex.ok(SVal(lift(C, x, st)), st)


def _round(kwargs, args, idx):
    r = kwargs.get('round')
    if r is None and len(args) > idx:
        r = args[idx]
    return r


def v_muldiv(C, name, args, kwargs, st, fr):
    ex = C.ex
    n = {'mul': 2, 'div': 2, 'muldiv': 3}[name]
    for i, x in enumerate(args[:n]):
        if isinstance(x, SOpt) and isinstance(x.inner, (SVal, SInt)):
            # an optional value as operand: None has no _value -> AttributeError/TypeError in the real classes
            def some(s, i=i, x=x):
                return v_muldiv(C, name, list(args[:i]) + [x.inner] + list(args[i + 1:]), kwargs, s, fr)
            return ex.split(x.isnone, st, lambda s: ex.exc('TypeError', s), some)
    ops = [lift(C, a, st) for a in args[:n]]
    rnd = _round(kwargs, args, n)
    if ex.instance == 'real':
        if name == 'mul':
            return ex.ok(SVal(ops[0] * ops[1]), st)
        den = ops[1] if name == 'div' else ops[2]
        num = ops[0] if name == 'div' else ops[0] * ops[1]
        return ex.split(den == 0, st, lambda s: ex.exc('ZeroDivisionError', s), lambda s: ex.ok(SVal(num / den), s))
    scale_facts(st, ex)
    if name == 'mul':
        num, den = ops[0] * ops[1], SCALE
    elif name == 'div':
        num, den = ops[0] * SCALE, ops[1]
    else:
        num, den = ops[0] * ops[1], ops[2]
    up = None
    if isinstance(rnd, SStr) and rnd.lit in ('up', 'down'):
        up = rnd.lit == 'up'
    elif ex.instance == 'guarded':
        up = False
    else:
        # Fixed raises ValueError unless round is 'up' or 'down' (C12)
        if rnd is None or isinstance(rnd, SNone) or (isinstance(rnd, SStr) and rnd.lit is not None):
            return ex.exc('ValueError', st)
        raise Unsupported('symbolic rounding mode')
    if ex.instance == 'guarded':
        up = False

    def ok(s):
        return ex.ok(SVal(floor_div(C, num, den, s, name, up=up)), s)
    if name == 'mul':
        return ok(st)
    return ex.split(den == 0, st, lambda s: ex.exc('ZeroDivisionError', s), ok)
