"""
Bounded stand-ins: run bounded/harness.py (real code under /venv/bin/python) for the property and attach
its result to the run.  Labelled `bounded`; never counted in obligations/discharged.
"""
import json
import os
import subprocess
import tempfile

HERE = os.path.dirname(os.path.abspath(__file__))
ROOT = os.path.dirname(HERE)
REPO = os.environ.get('DROOP_REPO', '/repo')

HAS = {'C01', 'C02', 'C04', 'C06', 'C07', 'C08', 'C09', 'C10', 'C11', 'C13', 'C15', 'C16', 'C17', 'C18', 'C19', 'C20', 'C03', 'C14',
       'C12'}


def run(ctx):
    if ctx.pid not in HAS:
        return
    out = tempfile.NamedTemporaryFile(suffix='.json', delete=False).name
    env = dict(os.environ)
    env['PYTHONPATH'] = REPO
    env['DROOP_REPO'] = REPO
    cmd = ['/venv/bin/python', os.path.join(ROOT, 'bounded', 'harness.py'), '--prop', ctx.pid, '--tier', ctx.tier,
           '--seed', str(ctx.seed), '--out', out, '--replay-dir', os.path.join(ROOT, 'replays')]
    try:
        p = subprocess.run(cmd, env=env, capture_output=True, text=True, timeout=3600 if ctx.tier == 'thorough' else 600)
        with open(out) as f:
            doc = json.load(f)
    except Exception as e:      # the stand-in itself failed: that is not a verdict about the property (exit 3 in conclude)
        tail = ''
        try:
            tail = ' | ' + ' / '.join((p.stderr or '').strip().splitlines()[-3:])
        except Exception:
            pass
        ctx.bounded.append({'label': 'bounded', 'error': 'stand-in did not run: %s%s' % (e, tail), 'evaluations': 0,
                            'distinct_nontrivial': 0, 'rule': '', 'violations': []})
        return
    finally:
        try:
            os.unlink(out)
        except OSError:
            pass
    if not doc.get('rule') or doc.get('rule', '').startswith('no bounded'):
        return
    ctx.bounded.append(doc)
