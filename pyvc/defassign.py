"""
DEF obligations: definite assignment of every local at every load, on all CFG paths *including
exception edges* (an exception may leave a try body before any of its statements completes).
A forward must-analysis over the AST; sets of definitely assigned names.
"""
import ast

TOP = None      # unreachable


def meet(a, b):
    if a is TOP:
        return b
    if b is TOP:
        return a
    return a & b


class DefAssign:
    def __init__(self, fn_node, extra_bound=()):
        self.fn = fn_node
        a = fn_node.args
        self.params = {x.arg for x in a.posonlyargs + a.args + a.kwonlyargs}
        if a.vararg:
            self.params.add(a.vararg.arg)
        if a.kwarg:
            self.params.add(a.kwarg.arg)
        from .symex import assigned_names
        self.locals = assigned_names(fn_node.body) | self.params
        self.problems = []      # (name, lineno)
        self.extra = set(extra_bound)

    def run(self):
        self.block(self.fn.body, frozenset(self.params | self.extra), Ctx())
        return self.problems

    # ---- expressions: report loads of locals that are not definitely assigned
    def use(self, node, st):
        if st is TOP or node is None:
            return
        for n in ast.walk(node):
            if isinstance(n, (ast.Lambda, ast.GeneratorExp, ast.ListComp, ast.SetComp, ast.DictComp)):
                # comprehension targets are bound inside; approximate: names bound anywhere inside are fine
                pass
            if isinstance(n, ast.Name) and isinstance(n.ctx, ast.Load) and n.id in self.locals and n.id not in st:
                if not self.bound_in_enclosing_comp(node, n):
                    self.problems.append((n.id, n.lineno))

    def bound_in_enclosing_comp(self, root, name_node):
        for c in ast.walk(root):
            if isinstance(c, (ast.GeneratorExp, ast.ListComp, ast.SetComp, ast.DictComp)):
                bound = {t.id for g in c.generators for t in ast.walk(g.target) if isinstance(t, ast.Name)}
                if name_node.id in bound and any(x is name_node for x in ast.walk(c)):
                    return True
            if isinstance(c, ast.Lambda):
                bound = {a.arg for a in c.args.args}
                if name_node.id in bound and any(x is name_node for x in ast.walk(c)):
                    return True
        return False

    def targets(self, t):
        out = set()
        for n in ast.walk(t):
            if isinstance(n, ast.Name) and isinstance(n.ctx, ast.Store):
                out.add(n.id)
        return out

    # ---- statements: returns the state after normal completion (TOP if none)
    def block(self, stmts, st, cx):
        for s in stmts:
            if st is TOP:
                break
            if not self.cannot_raise(s, st):
                cx.note_raise(st)       # the statement may raise before completing
            st = self.stmt(s, st, cx)
        return st

    def cannot_raise(self, s, st):
        "plain copies of bound names / constants, pass, break, continue"
        if isinstance(s, (ast.Pass, ast.Break, ast.Continue)):
            return True
        if isinstance(s, ast.Assign) and all(isinstance(t, ast.Name) for t in s.targets):
            v = s.value
            if isinstance(v, ast.Constant):
                return True
            if isinstance(v, ast.Name) and (v.id in st or v.id not in self.locals):
                return True
        return False

    def stmt(self, s, st, cx):
        if isinstance(s, (ast.FunctionDef, ast.ClassDef)):
            return st | {s.name}
        if isinstance(s, ast.Assign):
            self.use(s.value, st)
            for t in s.targets:
                for sub in ast.walk(t):
                    if isinstance(sub, (ast.Attribute, ast.Subscript)):
                        self.use(sub.value, st)
                        if isinstance(sub, ast.Subscript):
                            self.use(sub.slice, st)
            new = set()
            for t in s.targets:
                new |= self.targets(t)
            return st | new
        if isinstance(s, ast.AugAssign):
            self.use(s.value, st)
            if isinstance(s.target, ast.Name):
                if s.target.id in self.locals and s.target.id not in st:
                    self.problems.append((s.target.id, s.lineno))
                return st | {s.target.id}
            self.use(s.target, st)
            return st
        if isinstance(s, ast.AnnAssign):
            self.use(s.value, st)
            return st | self.targets(s.target) if s.value is not None else st
        if isinstance(s, ast.Expr):
            self.use(s.value, st)
            return st
        if isinstance(s, ast.Return):
            self.use(s.value, st)
            return TOP
        if isinstance(s, ast.Raise):
            self.use(s.exc, st)
            cx.note_raise(st)
            return TOP
        if isinstance(s, ast.Assert):
            self.use(s.test, st)
            return st
        if isinstance(s, (ast.Pass, ast.Import, ast.ImportFrom, ast.Global, ast.Nonlocal)):
            if isinstance(s, (ast.Import, ast.ImportFrom)):
                return st | {(al.asname or al.name).split('.')[0] for al in s.names}
            return st
        if isinstance(s, ast.Delete):
            return st - {t.id for t in s.targets if isinstance(t, ast.Name)}
        if isinstance(s, ast.Break):
            cx.note_break(st)
            return TOP
        if isinstance(s, ast.Continue):
            return TOP
        if isinstance(s, ast.If):
            self.use(s.test, st)
            a = self.block(s.body, st, cx)
            b = self.block(s.orelse, st, cx)
            return meet(a, b)
        if isinstance(s, ast.While):
            self.use(s.test, st)
            infinite = isinstance(s.test, ast.Constant) and bool(s.test.value)
            inner = cx.loop()
            self.block(s.body, st, inner)
            cx.absorb(inner)
            exit_st = inner.breaks
            if not infinite:
                exit_st = meet(exit_st, st) if exit_st is not TOP else st
            if s.orelse and not infinite:
                exit_st = meet(exit_st, self.block(s.orelse, st, cx))
            return exit_st
        if isinstance(s, ast.For):
            self.use(s.iter, st)
            inner = cx.loop()
            self.block(s.body, st | self.targets(s.target), inner)
            cx.absorb(inner)
            out = st       # zero iterations
            if inner.breaks is not TOP:
                out = meet(out, inner.breaks)
            if s.orelse:
                out = meet(self.block(s.orelse, st, cx), inner.breaks) if inner.breaks is not TOP else self.block(s.orelse, st, cx)
            return out
        if isinstance(s, ast.Try):
            tcx = cx.try_()
            body_out = self.block(s.body, st, tcx)
            cx.absorb_loopctl(tcx)
            hstate = tcx.raises         # meet of the states at every point of the body where an exception may leave it
            outs = []
            if s.orelse:
                body_out = self.block(s.orelse, body_out, cx) if body_out is not TOP else TOP
            outs.append(body_out)
            for h in s.handlers:
                hs = hstate
                if hs is TOP:
                    continue
                if h.type is not None:
                    self.use(h.type, hs)
                if h.name:
                    hs = hs | {h.name}
                o = self.block(h.body, hs, cx)
                if o is not TOP and h.name:
                    o = o - {h.name}
                outs.append(o)
            if not s.handlers:
                cx.note_raise(hstate if hstate is not TOP else st)
            res = TOP
            for o in outs:
                res = meet(res, o)
            if s.finalbody:
                fin_in = res if res is not TOP else (hstate if hstate is not TOP else st)
                res2 = self.block(s.finalbody, fin_in, cx)
                return res2 if res is not TOP else TOP
            return res
        if isinstance(s, ast.With):
            for it in s.items:
                self.use(it.context_expr, st)
                if it.optional_vars is not None:
                    st = st | self.targets(it.optional_vars)
            return self.block(s.body, st, cx)
        # unknown statement kind: be conservative
        for n in ast.iter_child_nodes(s):
            if isinstance(n, ast.expr):
                self.use(n, st)
        return st


class Ctx:
    def __init__(self, parent=None, is_loop=False, is_try=False):
        self.parent = parent
        self.is_loop = is_loop
        self.is_try = is_try
        self.breaks = TOP
        self.raises = TOP

    def loop(self):
        return Ctx(self, is_loop=True)

    def try_(self):
        return Ctx(self, is_try=True)

    def note_break(self, st):
        c = self
        while c is not None and not c.is_loop:
            c = c.parent
        if c is not None:
            c.breaks = meet(c.breaks, st)

    def note_raise(self, st):
        c = self
        while c is not None and not c.is_try:
            c = c.parent
        if c is not None:
            c.raises = meet(c.raises, st)

    def absorb(self, inner):
        # exceptions raised inside a loop body propagate to the enclosing try
        if inner.raises is not TOP:
            self.note_raise(inner.raises)

    def absorb_loopctl(self, inner):
        # breaks inside a try belong to the enclosing loop (already recorded by note_break walking parents)
        pass


def check_function(fn_node):
    return DefAssign(fn_node).run()
