"""
Strings.  Literals are concrete; everything else is an opaque id, optionally with a recorded
structure (how it was built) used by the A-fmt model and by token abstraction.
"""
import re
import z3
from .sv import *      # noqa

strlen = z3.Function('strlen', I, I)
fmtkind = z3.Function('fmtkind', I, I)      # 1: "%d.%0Nd"   2: "%d.%0Nd_%0Md"
fmtN = z3.Function('fmtN', I, I)
fmtM = z3.Function('fmtM', I, I)
str_of_int = z3.Function('str_of_int', I, I)
str_find = z3.Function('str_find', I, I, I)     # s.find(sub): position or -1


class Strings:
    def str_nonempty(self, v):
        return strlen(v.t) > 0

    def str_eq(self, a, b):
        return a.t == b.t

    def str_concat(self, a, b):
        if a.lit is not None and b.lit is not None:
            return SStr(lit=a.lit + b.lit)
        if a.lit == '':
            return b
        if b.lit == '':
            return a
        pa = a.struct[1] if a.struct and a.struct[0] == 'concat' else [a]
        pb = b.struct[1] if b.struct and b.struct[0] == 'concat' else [b]
        parts = list(pa)
        for p in pb:
            if parts and parts[-1].lit is not None and p.lit is not None:
                parts[-1] = SStr(lit=parts[-1].lit + p.lit)
            else:
                parts.append(p)
        return SStr(struct=('concat', parts))

    def str_of(self, v, st):
        "str(v)"
        if isinstance(v, SStr):
            return v
        if isinstance(v, SInt):
            t = z3.simplify(v.t)
            if z3.is_int_value(t):
                return SStr(lit=str(t.as_long()))
            return SStr(t=str_of_int(v.t), struct=('str_of', v))
        if isinstance(v, SBool):
            return SStr(t=z3.If(v.t, SStr(lit='True').t, SStr(lit='False').t))
        if isinstance(v, SNone):
            return SStr(lit='None')
        if isinstance(v, SAny):
            return SStr(t=self.any_str_id(v))
        return SStr(struct=('str_of', v))

    def dfmt_shape(self, s):
        "recognise the display formats built by the arithmetic classes; returns (kind, N, M) or None"
        if s.struct and s.struct[0] == 'concat':
            parts = s.struct[1]

            def lit(p):
                return p.lit

            def num(p):
                if p.struct and p.struct[0] == 'str_of' and isinstance(p.struct[1], SInt):
                    return p.struct[1].t
                if p.lit is not None and re.fullmatch(r'\d+', p.lit):
                    return z3.IntVal(int(p.lit))
                return None
            if len(parts) == 3 and lit(parts[0]) == '%d.%0' and num(parts[1]) is not None and lit(parts[2]) == 'd':
                return (1, num(parts[1]), None)
            if len(parts) == 5 and lit(parts[0]) == '%d.%0' and num(parts[1]) is not None and \
                    lit(parts[2]) == 'd_%0' and num(parts[3]) is not None and lit(parts[4]) == 'd':
                return (2, num(parts[1]), num(parts[3]))
        if s.lit is not None:
            m = re.fullmatch(r'%d\.%0(\d+)d', s.lit)
            if m:
                return (1, z3.IntVal(int(m.group(1))), None)
            m = re.fullmatch(r'%d\.%0(\d+)d_%0(\d+)d', s.lit)
            if m:
                return (2, z3.IntVal(int(m.group(1))), z3.IntVal(int(m.group(2))))
        return None

    def is_dfmt(self, s, n, m=None):
        "formula: s is the display format with N (= n) digits [and M (= m) guard digits]"
        sh = self.dfmt_shape(s)
        want = 1 if m is None else 2
        if sh is not None:
            if sh[0] != want:
                return z3.BoolVal(False)
            f = sh[1] == n
            if m is not None:
                f = z3.And(f, sh[2] == m)
            return f
        if s.lit is not None or s.struct is not None:
            return z3.BoolVal(False)
        f = z3.And(fmtkind(s.t) == want, fmtN(s.t) == n)
        if m is not None:
            f = z3.And(f, fmtM(s.t) == m)
        return f

    def str_format(self, fmt, arg, st, fr):
        ex = self.ex
        args = arg.items if isinstance(arg, STuple) else [arg]
        sh = self.dfmt_shape(fmt)
        if sh is None and fmt.lit is None and fmt.struct is None:
            # symbolic format string (class attribute): shape given by fmtkind / fmtN / fmtM
            if len(args) == 2:
                return ex.ok(SStr(struct=('dec', args[0], args[1], fmtN(fmt.t), fmtkind(fmt.t) == 1)), st)
            if len(args) == 3:
                return ex.ok(SStr(struct=('decg', args[0], args[1], fmtN(fmt.t), args[2], fmtM(fmt.t),
                                          fmtkind(fmt.t) == 2)), st)
            raise Unsupported('symbolic format string with %d arguments' % len(args))
        if sh is not None:
            if sh[0] == 1 and len(args) == 2:
                return ex.ok(SStr(struct=('dec', args[0], args[1], sh[1], z3.BoolVal(True))), st)
            if sh[0] == 2 and len(args) == 3:
                return ex.ok(SStr(struct=('decg', args[0], args[1], sh[1], args[2], sh[2], z3.BoolVal(True))), st)
            return ex.exc('TypeError', st)
        if fmt.lit is not None:
            specs = re.findall(r'%[-0-9.]*([sdr%])', fmt.lit)
            specs = [x for x in specs if x != '%']
            if len(specs) != len(args):
                return ex.exc('TypeError', st)
            outs = [Out_ok(st)]
            for sp, a in zip(specs, args):
                if sp == 'd':
                    if isinstance(a, (SInt, SBool)):
                        continue
                    if isinstance(a, SNone) or isinstance(a, SStr):
                        return ex.exc('TypeError', st)
                    if isinstance(a, SOpt) and isinstance(a.inner, SInt):
                        return ex.split(a.isnone, st, lambda s: ex.exc('TypeError', s),
                                        lambda s: ex.ok(SStr(struct=('fmt', fmt.lit, args)), s))
                    if isinstance(a, SAny):
                        return ex.split(self.any_is_num(a), st, lambda s: ex.ok(SStr(struct=('fmt', fmt.lit, args)), s),
                                        lambda s: ex.exc('TypeError', s))
                    raise Unsupported('%%d of %r' % (a,))
            r = SStr(struct=('fmt', fmt.lit, args))
            if fmt.lit.endswith('%s') and args and isinstance(args[-1], SStr):
                from .models import msg_subject
                st.assume(msg_subject(r.t) == args[-1].t)      # the message names its last %s argument
            elif fmt.lit.endswith('%s') and args and isinstance(args[-1], SRef):
                hk = ex.hooks.get('str_of_ref')
                if hk:
                    hk(r, args[-1], st)
            return ex.ok(r, st)
        raise Unsupported('format of %r' % (fmt,))

    def str_denotes(self, s, num, den, st):
        """formula: the decimal numeral text s denotes the rational num/den (den > 0)   [A-fmt]"""
        sg = 1
        if s.struct and s.struct[0] == 'concat' and len(s.struct[1]) == 2 and s.struct[1][0].lit == '-':
            sg = -1
            s = s.struct[1][1]
        if s.struct and s.struct[0] == 'str_of' and isinstance(s.struct[1], SInt):
            v = s.struct[1].t
            if sg < 0:
                return z3.And(v >= 0, -v * den == num)
            return v * den == num
        if s.lit is not None and re.fullmatch(r'-?\d+', s.lit):
            return sg * int(s.lit) * den == num
        if s.struct and s.struct[0] == 'dec':
            _, a, b, N, valid = s.struct
            if not (isinstance(a, SInt) and isinstance(b, SInt)):
                return z3.BoolVal(False)
            self.pow10_facts(st, N)
            P = pow10(N)
            ok = z3.And(valid, N >= 0, b.t >= 0, b.t < P)
            if sg < 0:
                # '-' + "%d.%0Nd" % (a, b) is a numeral only when a >= 0
                val = -(a.t * P + b.t)
                return z3.And(ok, a.t >= 0, z3.Or(z3.And(den == P, val == num), val * den == num * P))
            val = z3.If(a.t >= 0, a.t * P + b.t, a.t * P - b.t)
            return z3.And(ok, z3.Or(z3.And(den == P, val == num), val * den == num * P))
        if s.struct and s.struct[0] == 'decg':
            _, a, b, N, c, M, valid = s.struct
            self.pow10_facts(st, N)
            self.pow10_facts(st, M)
            P, Q = pow10(N), pow10(M)
            T = pow10(z3.simplify(N + M))       # 10^(N+M) = P*Q (A-pow10), kept as one term
            ok = z3.And(valid, N >= 0, M >= 1, b.t >= 0, b.t < P, c.t >= 0, c.t < Q)
            if sg < 0:
                val = -(a.t * T + b.t * Q + c.t)
                return z3.And(ok, a.t >= 0, z3.Or(z3.And(den == T, val == num), val * den == num * T))
            val = z3.If(a.t >= 0, a.t * T + b.t * Q + c.t, a.t * T - b.t * Q - c.t)
            return z3.And(ok, z3.Or(z3.And(den == T, val == num), val * den == num * T))
        return z3.BoolVal(False)


def Out_ok(st):
    from .state import Out
    return Out('ok', None, st)
