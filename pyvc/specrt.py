"""
Spec run time: evaluation of contract bodies (pre / post), application of a contract at a call
site, spec-only vocabulary.
"""
import ast
import z3
from .sv import *      # noqa
from .state import State, Out
from .loader import ClassInfo, FuncInfo


class ResultUnavailable(Exception):
    pass


class SpecCtx:
    def __init__(self, mode):
        self.mode = mode
        self.requires = []      # (formula, label)
        self.ensures = []       # (formula, label, props)
        self.raises = []        # (excname, when-formula or None)
        self.modifies = []      # ('field', ref SV, fieldname) | ('cattr', clsqual, attr) | ('all', clsqual, field)
        self.guards = []
        self.frame_declared = False
        self.result_maker = None
        self.result_expr = None
        self.notes = {}

    def guarded(self, f):
        if not self.guards:
            return f
        return z3.Implies(z3.And(*self.guards), f)


class SpecRT:
    SPEC_FORMS = {'old', 'forall', 'exists', 'requires', 'ensures', 'raises', 'modifies', 'modifies_all',
                  'modifies_cattr', 'returns_abs', 'label', 'modifies_ghost', 'modifies_dict', 'result_is'}
    SPEC_BUILTINS = {'implies', 'iff', 'floor_of', 'ceil_of', 'pow10', 'is_int', 'is_none', 'is_instance', 'fresh',
                     'allocated', 'and_', 'or_', 'not_', 'ite', 'is_dfmt', 'is_dfmt_g', 'str_denotes',
                     'kind_of', 'cls', 'is_val', 'same_ref', 'truthy', 'str_of_int', 'any_int', 'any_str',
                     'any_bool', 'any_none', 'is_any_int', 'any_to_int', 'unchanged', 'log_len', 'logged',
                     'sv', 'static', 'has_underscore', 'floor_real', 'to_real',
                     'ghost', 'in_election', 'logged_now', 'seq_len', 'seq_at', 'is_whole', 'times_whole', 'some',
                     'cand_by_cid', 'validcid', 'whole', 'units', 'scale_S', 'is_ballot', 'hopeful_set',
                     'mem', 'length', 'msg_names', 'exact_arith', 'instance_is', 'V_of_int', 'field_updated', 'field_unchanged',
                     'dhas', 'dval', 'distinct_refs', 'is_digit_string', 'int_accepts', 'norm_any', 'dict_is',
                     'old_dict', 'dict_same', 'any_mem', 'any_of', 'any_is_int', 'any_int_value', 'str_is_int_of',
                     'any_is_none', 'any_eq', 'any_same', 'returned_class', 'is_the_election', 'dict_int_values_between', 'int_value_of', 'mem_opt', 'length_opt', 'slack0',
                     'dref', 'dict_has_ref', 'dict_copy_of', 'any_is_str',
                     'str_has', 'visited', 'snap_vote', 'dhas_in', 'dval_in',
                     'ghost_at', 'top_ref', 'ghost_moved', 'ledger_on', 'ballot_value', 'no_ballot_at', 'ballots_total', 'val_times_int'}

    def init(self):
        self.ctx = None

    # ------------------------------------------------------------------ names
    def spec_name(self, name, st, fr):
        ex = self.ex
        if name == 'result':
            if ex.spec_result is None:
                raise ResultUnavailable()
            return ex.spec_result
        if name in ('True', 'False', 'None'):
            return None
        specs = ex.specs
        if name in specs.specfns:
            return SBuiltin('specfn.' + name)
        if name in self.SPEC_BUILTINS or name in self.SPEC_FORMS:
            return SBuiltin('spec.' + name)
        if name in specs.consts:
            node = specs.consts[name]
            if isinstance(node, ast.Call) and isinstance(node.func, ast.Name) and node.func.id == 'cls':
                q = ast.literal_eval(node.args[0])
                info = ex.repo.resolve(q)
                if not isinstance(info, ClassInfo):
                    raise Unsupported('contract names unknown class %s' % q)
                return SClass(info)
            try:
                return ex.const(ast.literal_eval(node))
            except Exception:
                raise Unsupported('spec constant %s' % name)
        return None

    # ------------------------------------------------------------------ evaluation helpers
    def spec_eval(self, e, st, fr):
        outs = self.ex.ev(e, st, fr)
        oks = [o for o in outs if o.kind == 'ok']
        if len(outs) != 1 or len(oks) != 1:
            raise Unsupported('spec expression with %d outcomes: %s' % (len(outs), ast.unparse(e)))
        return oks[0].val

    def spec_bool(self, e, st, fr):
        v = self.spec_eval(e, st, fr)
        return self.ex.truth(v, st, fr)

    def spec_form(self, e, st, fr):
        ex = self.ex
        name = e.func.id
        ctx = self.ctx
        if name == 'old':
            if ex.spec_mode == 'pre' or ex.spec_pre is None:
                return ex.ev(e.args[0], st, fr)
            # evaluate in the pre-state heap with the *current* local names; on a fork, so that the pre-state snapshot
            # itself is never changed (it is shared: a loop's entry state serves every old() of its invariants)
            pre = ex.spec_pre.fork()
            pre.envs[fr.fid] = st.envs[fr.fid]
            f = fr
            while f is not None and f.parent_fid:
                pre.envs[f.parent_fid] = st.envs.get(f.parent_fid, {})
                f = ex.frames.get(f.parent_fid)
            outs = ex.ev(e.args[0], pre, fr)
            oks = [o for o in outs if o.kind == 'ok']
            if len(outs) != 1 or len(oks) != 1:
                raise Unsupported('old() with several outcomes')
            return ex.ok(oks[0].val, st)
        if name in ('forall', 'exists'):
            return ex.ok(SBool(self.quantifier(name, e, st, fr)), st)
        kw = {k.arg: k.value for k in e.keywords}
        if name == 'requires':
            if ctx is not None and ex.spec_mode == 'pre':
                f = self.spec_bool(e.args[0], st, fr)
                lab = ast.literal_eval(kw['name']) if 'name' in kw else ast.unparse(e.args[0])
                ctx.requires.append((ctx.guarded(f), lab))
            return ex.ok(NONE, st)
        if name == 'ensures':
            if ctx is not None and ex.spec_mode == 'post':
                f = self.spec_bool(e.args[0], st, fr)
                lab = ast.literal_eval(kw['name']) if 'name' in kw else ast.unparse(e.args[0])
                props = ast.literal_eval(kw['props']) if 'props' in kw else None
                ctx.ensures.append((ctx.guarded(f), lab, props))
            return ex.ok(NONE, st)
        if name == 'raises':
            if ctx is not None and ex.spec_mode == 'pre':
                a0 = e.args[0]
                en = a0.id if isinstance(a0, ast.Name) else ast.literal_eval(a0)
                when = None
                if 'when' in kw:
                    when = self.spec_bool(kw['when'], st, fr)
                    if ctx.guards:
                        when = z3.And(*(ctx.guards + [when]))
                elif ctx.guards:
                    when = None
                ctx.raises.append((en, when))
            return ex.ok(NONE, st)
        if name == 'modifies':
            if ctx is not None and ex.spec_mode == 'pre':
                ctx.frame_declared = True
                if e.args:
                    ov = self.spec_eval(e.args[0], st, fr)
                    for fa in e.args[1:]:
                        fld = ast.literal_eval(fa)
                        if isinstance(ov, SClass):
                            ctx.modifies.append(('cattr', ov.info.qualname, fld))
                        else:
                            ctx.modifies.append(('field', ov, fld))
            return ex.ok(NONE, st)
        if name == 'modifies_all':
            if ctx is not None and ex.spec_mode == 'pre':
                ctx.frame_declared = True
                ov = self.spec_eval(e.args[0], st, fr)
                for fa in e.args[1:]:
                    ctx.modifies.append(('all', ov.info.qualname, ast.literal_eval(fa)))
            return ex.ok(NONE, st)
        if name == 'result_is':
            # the result is this expression of the pre-state (no fresh symbol at call sites: usable inside comprehensions)
            if ctx is not None and ex.spec_mode == 'pre':
                ctx.result_expr = self.spec_eval(e.args[0], st, fr)
            return ex.ok(NONE, st)
        if name == 'modifies_dict':
            if ctx is not None and ex.spec_mode == 'pre':
                ctx.frame_declared = True
                ov = self.spec_eval(e.args[0], st, fr)
                ctx.modifies.append(('dict', ov))
            return ex.ok(NONE, st)
        if name == 'modifies_ghost':
            if ctx is not None and ex.spec_mode == 'pre':
                ctx.frame_declared = True
                names = [ast.literal_eval(fa) for fa in e.args]
                if 'nlog' in names:
                    # the action log is one abstraction: whoever may add an action may change its bookkeeping ghosts
                    names += [g for g in ('lastcomplete', 'hooked') if g not in names]
                for g in names:
                    ctx.modifies.append(('ghost', g))
            return ex.ok(NONE, st)
        if name == 'label':
            return ex.ok(NONE, st)
        raise Unsupported('spec form %s' % name)

    def quantifier(self, name, e, st, fr):
        "forall(range(a,b) | abstract collection, lambda x: body)"
        ex = self.ex
        dom, lam = e.args[0], e.args[1]
        if not isinstance(lam, ast.Lambda):
            raise Unsupported('quantifier body must be a lambda')
        var = lam.args.args[0].arg
        x = fresh_int(var)
        qfr = ex.new_frame(st, None, fr.fid, fr.owner, fr.module, locals_set={var})
        qfr.func = fr.func
        if isinstance(dom, ast.Call) and isinstance(dom.func, ast.Name) and dom.func.id == 'range':
            bs = [self.spec_eval(a, st, fr) for a in dom.args]
            lo, hi = (SInt(0), bs[0]) if len(bs) == 1 else (bs[0], bs[1])
            guard = z3.And(lo.t <= x, x < hi.t)
            st.envs[qfr.fid][var] = SInt(x)
        else:
            d = self.spec_eval(dom, st, fr)
            if isinstance(d, SAbs):
                guard = d.mem(x)
                st.envs[qfr.fid][var] = self.wrap(d.ek, x)
            elif isinstance(d, SStr) and d.lit == 'any':
                x = z3.Const(fresh_name(var), self.AnyT)
                guard = z3.BoolVal(True)
                st.envs[qfr.fid][var] = SAny(x)
            elif isinstance(d, SStr) and d.lit is not None and d.lit.startswith('ref:'):
                # forall('ref:droop.candidate.Candidate', lambda c: ...) over allocated objects
                guard = z3.And(x >= 1, x < st.alloc)
                st.envs[qfr.fid][var] = self.wrap(d.lit, x)
            else:
                raise Unsupported('quantifier domain %r' % (d,))
        body = self.spec_bool(lam.body, st, qfr)
        if name == 'forall':
            return z3.ForAll([x], z3.Implies(guard, body))
        return z3.Exists([x], z3.And(guard, body))

    # ------------------------------------------------------------------ running a contract body
    def spec_block(self, stmts, st, fr, ctx):
        ex = self.ex
        for s in stmts:
            try:
                if isinstance(s, ast.Expr):
                    if isinstance(s.value, ast.Constant):
                        continue
                    self.spec_eval(s.value, st, fr)
                elif isinstance(s, ast.Assign):
                    v = self.spec_eval(s.value, st, fr)
                    for t in s.targets:
                        if isinstance(t, ast.Name):
                            st.envs[fr.fid][t.id] = v
                        elif isinstance(t, ast.Tuple) and isinstance(v, STuple):
                            for tt, vv in zip(t.elts, v.items):
                                st.envs[fr.fid][tt.id] = vv
                        else:
                            raise Unsupported('spec assignment target')
                elif isinstance(s, ast.If):
                    b = z3.simplify(self.spec_bool(s.test, st, fr))
                    if z3.is_true(b):
                        r = self.spec_block(s.body, st, fr, ctx)
                        if r is not None:
                            return r
                    elif z3.is_false(b):
                        r = self.spec_block(s.orelse, st, fr, ctx)
                        if r is not None:
                            return r
                    else:
                        # symbolic guard
                        if self._only_return(s.body) and self._only_return(s.orelse):
                            v1 = self.spec_eval(s.body[0].value, st, fr)
                            v2 = self.spec_eval(s.orelse[0].value, st, fr)
                            return self.ite_sv(b, v1, v2)
                        if ctx is None:
                            raise Unsupported('symbolic if in spec function')
                        ctx.guards.append(b)
                        self.spec_block(s.body, st, fr, ctx)
                        ctx.guards.pop()
                        ctx.guards.append(z3.Not(b))
                        self.spec_block(s.orelse, st, fr, ctx)
                        ctx.guards.pop()
                elif isinstance(s, ast.Return):
                    return self.spec_eval(s.value, st, fr) if s.value is not None else NONE
                elif isinstance(s, ast.Pass):
                    pass
                else:
                    raise Unsupported('spec statement %s' % type(s).__name__)
            except ResultUnavailable:
                if ex.spec_mode != 'pre':
                    raise
                continue
        return None

    @staticmethod
    def _only_return(stmts):
        return len(stmts) == 1 and isinstance(stmts[0], ast.Return) and stmts[0].value is not None

    def ite_sv(self, b, v1, v2):
        # an optional number met where the contract declares a plain one: its value (the call site's precondition obligations
        # and path condition say it is not None; a None would have failed the callee's own arithmetic)
        if isinstance(v1, SOpt) and not isinstance(v2, SOpt) and type(v1.inner) is type(v2):
            v1 = v1.inner
        if isinstance(v2, SOpt) and not isinstance(v1, SOpt) and type(v2.inner) is type(v1):
            v2 = v2.inner
        if isinstance(v1, SInt) and isinstance(v2, SInt):
            return SInt(z3.If(b, v1.t, v2.t))
        if isinstance(v1, SBool) and isinstance(v2, SBool):
            return SBool(z3.If(b, v1.t, v2.t))
        if isinstance(v1, SVal) and isinstance(v2, SVal):
            return SVal(z3.If(b, v1.t, v2.t))
        if isinstance(v1, SStr) and isinstance(v2, SStr):
            return SStr(t=z3.If(b, v1.t, v2.t))
        if isinstance(v1, SRef) and isinstance(v2, SRef) and v1.cname == v2.cname:
            return SRef(v1.cls, z3.If(b, v1.t, v2.t))
        if isinstance(v1, SAny) and isinstance(v2, SAny):
            return SAny(z3.If(b, v1.t, v2.t))
        raise Unsupported('ite of %r / %r' % (v1, v2))

    def run_spec(self, con, env, st_pre, st_post, result, mode):
        "evaluate contract body; returns SpecCtx.  st_post envs get a scratch frame."
        ex = self.ex
        saved = (ex.spec_mode, ex.spec_pre, ex.spec_result, self.ctx)
        ctx = SpecCtx(mode)
        names = set(env) | {n.id for n in ast.walk(con.node) if isinstance(n, ast.Name) and isinstance(n.ctx, ast.Store)}
        fr = ex.new_frame(st_post, None, None, None, None, locals_set=names)
        fr.func = None
        st_post.envs[fr.fid].update(env)
        ex.spec_mode, ex.spec_pre, ex.spec_result, self.ctx = mode, (st_pre if mode == 'post' else None), result, ctx
        try:
            self.spec_block(con.node.body, st_post, fr, ctx)
        finally:
            ex.spec_mode, ex.spec_pre, ex.spec_result, self.ctx = saved
            st_post.envs.pop(fr.fid, None)
        return ctx

    def call_specfn(self, name, args, st, fr):
        ex = self.ex
        node = ex.specs.specfns[name]
        params = [a.arg for a in node.args.args]
        names = set(params) | {n.id for n in ast.walk(node) if isinstance(n, ast.Name) and isinstance(n.ctx, ast.Store)}
        f2 = ex.new_frame(st, None, None, None, None, locals_set=names)
        env = dict(zip(params, args))
        for p, d in zip(params[len(params) - len(node.args.defaults):], node.args.defaults):
            if p not in env:
                env[p] = ex.const(ast.literal_eval(d))
        st.envs[f2.fid].update(env)
        try:
            r = self.spec_block(node.body, st, f2, self.ctx)
        finally:
            st.envs.pop(f2.fid, None)
        return r if r is not None else NONE

    # ------------------------------------------------------------------ contract at a call site
    def make_result(self, con, st, base='res'):
        kind = con.returns
        if kind is None:
            return NONE
        return self.fresh_by_annotation(kind, st, base, allocate=False)

    def resolve_kind(self, k):
        "annotation atom -> internal kind string"
        k = k.strip()
        if k in ('int', 'bool', 'str', 'none', 'any', 'val'):
            return k
        if k.startswith('opt:'):
            return 'opt:' + self.resolve_kind(k[4:])
        if k.startswith('ref:') or k.startswith('abs:') or k.startswith('seq:') or k.startswith('tuple:') or \
                k.startswith('list:') or k in ('dict', 'options'):
            return k
        if k == 'any_rule':
            return 'any_rule'
        if k == 'list0':
            return 'list0'
        v = self.spec_name(k, None, None)
        if isinstance(v, SClass):
            return 'ref:' + v.info.qualname
        raise Unsupported('unknown kind annotation %s' % k)

    def fresh_by_annotation(self, ann, st, base, allocate=True):
        k = self.resolve_kind(ann)
        if k == 'none':
            return NONE
        if k.startswith('tuple:'):
            return STuple([self.fresh_by_annotation(x, st, base, allocate) for x in k[6:].split(',')])
        if k.startswith('abs:'):
            # lists of objects handed around by the rules are duplicate-free (part of the callee's contract)
            return self.fresh_abs(k[4:], st, base, distinct=True)
        if k == 'dict':
            return self.new_dict(st, symbolic=True, base=base)
        if k == 'list0':
            return STuple([])
        v = self.fresh_of_kind(k, base)
        if isinstance(v, SRef):
            st.assume(v.t >= 1)
            if allocate:
                st.assume(v.t < st.alloc)
            st.note_ref(v.cname, v.t)
        if isinstance(v, SOpt) and isinstance(v.inner, SRef):
            st.assume(v.inner.t >= 1)
            if allocate:
                st.assume(v.inner.t < st.alloc)
        return v

    def instantiate_facts(self, st):
        "instances of quantified fact schemas at the terms known on this path"
        out = []
        for cname, fn in st.facts:
            for t in st.refs.get(cname, []):
                f = fn(t)
                if f is not None and not z3.is_true(f):
                    out.append(f)
        return out

    def assumptions(self, st, extra_terms=None, force=False):
        if getattr(self.ex, 'muted', 0) and not force:
            return []       # obligations of exploratory runs are discarded
        out = list(st.pc) + self.instantiate_facts(st)
        hk = self.ex.hooks.get('dynamic_facts')
        if hk:
            out += hk(st)
        # the schemas themselves, quantified (for goals that quantify over fresh elements)
        q = z3.Int('q!')
        for cname, fn in st.facts:
            try:
                body = fn(q)
            except Exception:
                continue
            if body is not None and not z3.is_true(body):
                out.append(z3.ForAll([q], body))
        return out

    def site_anchor(self, info, node):
        ex = self.ex
        key = (ex.cur_func.qualname if ex.cur_func else '?', info.qualname)
        n = ex.site_counts.get(key, {})
        ln = getattr(node, 'lineno', 0)
        if ln not in n:
            n[ln] = len(n) + 1
        ex.site_counts[key] = n
        return '%s#%d' % (info.qualname.rsplit('.', 1)[-1], n[ln])

    def site_anchor_n(self, caller, what, line):
        "ordinal of a site (by source line) among sites of the same kind in the caller"
        ex = self.ex
        key = (caller, what)
        n = ex.site_counts.get(key, {})
        if line not in n:
            n[line] = len(n) + 1
        ex.site_counts[key] = n
        return n[line]

    def apply_contract(self, con, info, env, st, fr, node):
        ex = self.ex
        ex.col.assumed.add(info.qualname)
        ctx = self.run_spec(con, env, st, st, None, 'pre')
        caller = ex.cur_func.qualname if ex.cur_func else '?'
        anchor = self.site_anchor(info, node)
        for f, lab in ctx.requires:
            if not z3.is_true(z3.simplify(f)):
                ex.col.add('PRE', ex.cur_props or con.props, caller, anchor + ':' + lab[:60],
                           'precondition of %s at line %s: %s' % (info.qualname, getattr(node, 'lineno', '?'), lab),
                           self.assumptions(st), f, meta={'callee': info.qualname, 'line': getattr(node, 'lineno', 0)})
            st.assume(f)
        outs = []
        whens = []
        for en, when in ctx.raises:
            cond = when if when is not None else fresh_bool('may_raise_' + en)
            if ex.sat(st, cond):
                s1 = st.fork()
                s1.assume(cond)
                outs.append(Out('exc', None, s1, exc=en))
            if when is not None:
                whens.append(when)
        for w in whens:
            st.assume(z3.Not(w))
        if whens and not ex.sat(st):
            return outs
        pre = st.fork()
        self.havoc(ctx.modifies, st)
        # the callee may allocate: the allocation frontier moves forward by an unknown amount
        na = fresh_int('alloc')
        st.assume(na >= pre.alloc)
        st.alloc = na
        result = ctx.result_expr if ctx.result_expr is not None else self.make_result(con, st, base='r_' + info.name.strip('_'))
        ctx2 = self.run_spec(con, env, pre, st, result, 'post')
        for f, lab, props in ctx2.ensures:
            st.assume(f)
        hk = ex.hooks.get('post_contract')
        if hk:
            hk(info, env, result, pre, st)
        outs.append(Out('ok', result, st))
        return outs

    def havoc(self, modifies, st):
        keys = set()
        for m in modifies:
            if m[0] == 'all':
                keys.add((m[1], m[2]))
        # vote-ledger ghosts are functions of the tallies / ballots: a callee that may change those without saying what happens
        # to the ghosts leaves them unknown (never silently unchanged)
        from . import models as _M
        if _M.ledger_on(self.ex):
            touched = set()
            for m in modifies:
                if m[0] == 'all':
                    touched.add((m[1], m[2]))
                elif m[0] == 'field':
                    touched.add((self.field_owner(m[1].cname, m[2]), m[2]))
            stated = {m[1] for m in modifies if m[0] == 'ghost'}
            extra = []
            if ((_M.CAND, 'vote') in touched or (_M.ELEC, 'exhausted') in touched) and 'T' not in stated:
                extra.append(('ghost', 'T'))
            if ((_M.CAND, 'vote') in touched or (_M.ELEC, 'residual') in touched) and 'Tm' not in stated:
                extra.append(('ghost', 'Tm'))
            if ((_M.BALLOT, 'weight') in touched or (_M.BALLOT, 'index') in touched) and 'G' not in stated:
                extra.append(('ghost', 'G'))
            modifies = list(modifies) + extra
        self._in_havoc = True       # ghost effects of a callee are what its contract says, not the field hooks
        try:
            self._havoc(modifies, st)
        finally:
            self._in_havoc = False
            hk = self.ex.hooks.get('after_havoc')
            if hk and keys:
                hk(st, keys)

    def _havoc(self, modifies, st):
        for m in modifies:
            if m[0] == 'field':
                _, ov, fld = m
                cname = self.field_owner(ov.cname, fld)
                kind = self.field_kind(cname, fld)
                if kind is None:
                    raise Unsupported('modifies unknown field %s.%s' % (ov.cname, fld))
                self.write_field(st, ov, fld, self.fresh_of_kind(kind, 'hv_' + fld), kind)
            elif m[0] == 'cattr':
                _, cq, attr = m
                sc = self.schema(cq)
                kind = sc.cattrs.get(attr) if sc else None
                if kind is None:
                    raise Unsupported('modifies unknown class attribute %s.%s' % (cq, attr))
                st.cattr[(cq, attr)] = self.fresh_of_kind(kind, 'hv_' + attr)
            elif m[0] == 'dict':
                has, val = self.dict_arrays(st)
                d = m[1].t
                st.heap[('dict', 'has')] = z3.Store(has, d, z3.Const(fresh_name('hv_has'), z3.ArraySort(self.AnyT, B)))
                st.heap[('dict', 'val')] = z3.Store(val, d, z3.Const(fresh_name('hv_val'), z3.ArraySort(self.AnyT, self.AnyT)))
            elif m[0] == 'ghost':
                from .models import ghost_get, ghost_fresh
                st.ghost['g:' + m[1]] = ghost_fresh(m[1])
            elif m[0] == 'all':
                _, cq, fld = m
                kind = self.field_kind(cq, fld)
                # every object's field may have changed: a FRESH array (the initial array has a deterministic name, so
                # re-creating it would reset the field to its initial contents instead of havocking it)
                cur = self.heap_array(st, cq, fld, kind)
                tagn = '%s_%s' % (cq.rsplit('.', 1)[-1], fld)
                st.heap[(cq, fld)] = z3.Const(fresh_name('Hm_' + tagn), cur.sort())
                if (cq, fld + '?') in st.heap:
                    st.heap[(cq, fld + '?')] = z3.Const(fresh_name('Hm_' + tagn + '_none'), st.heap[(cq, fld + '?')].sort())
