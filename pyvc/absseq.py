"""
Abstract finite sequences / sets (SAbs): membership predicate, length term, optional element and
position functions.  Universally quantified knowledge is kept as Python closures ("fact
schemas") and instantiated at the terms known on a path.
"""
import z3
from .sv import *      # noqa


class AbsSeqs:
    def fresh_abs(self, ek, st, base='L', distinct=False, ordered=True):
        "an arbitrary finite sequence of element kind ek"
        ek = self.resolve_kind(ek)
        sort = self.sort_of(ek)
        n = fresh_int(base + '_len')
        st.assume(n >= 0)
        elem = z3.Function(fresh_name(base + '_elem'), I, sort)
        pos = z3.Function(fresh_name(base + '_pos'), sort, I)
        memf = z3.Function(fresh_name(base + '_mem'), sort, B)
        L = SAbs(ek, lambda t: memf(t), n, elem=lambda i: elem(i), pos=lambda t: pos(t), distinct=distinct,
                 ordered=ordered, name=base)
        L.memf = memf
        # mem(x) => 0 <= pos(x) < n /\ elem(pos(x)) == x      ;   0 <= i < n => mem(elem(i))
        L.facts.append(lambda t: z3.Implies(memf(t), z3.And(pos(t) >= 0, pos(t) < n, elem(pos(t)) == t, n >= 1)))
        cname = ek[4:] if ek.startswith('ref:') else None
        if cname:
            st.facts.append((cname, L.facts[0]))
            if True:
                st.facts.append((cname, lambda t: z3.Implies(memf(t), z3.And(t >= 1, t < st.alloc))))
        return L

    def abs_index_facts(self, L, i, st):
        "facts about the element at index term i (0 <= i < len assumed by the caller)"
        e = L.elem(i)
        fs = [L.mem(e)]
        if L.distinct and L.pos is not None:
            fs.append(L.pos(e) == i)
        return fs

    def abs_mem(self, L, x, st):
        if isinstance(x, SOpt):
            return z3.And(z3.Not(x.isnone), self.abs_mem(L, x.inner, st))
        if isinstance(x, SNone):
            return z3.BoolVal(False)
        if L.ek == 'any':
            return L.mem(self.to_any(x).t)
        if isinstance(x, (SInt, SRef, SVal, SStr)):
            return L.mem(x.t)
        raise Unsupported('membership of %r in abstract collection' % (x,))

    def abs_subscript(self, L, i, st, fr):
        ex = self.ex
        if L.elem is None or not isinstance(i, SInt):
            raise Unsupported('index into unordered abstract collection')
        n = L.length
        idx = z3.If(i.t >= 0, i.t, n + i.t)

        def ok(s):
            e = L.elem(idx)
            for f in self.abs_index_facts(L, idx, s):
                s.assume(f)
            v = self.wrap(L.ek, e)
            if isinstance(v, SRef):
                s.note_ref(v.cname, e)
            return ex.ok(v, s)
        return ex.split(z3.And(idx >= 0, idx < n), st, ok, lambda s: ex.exc('IndexError', s))

    def abs_slice(self, L, lo, hi, st, fr):
        raise Unsupported('slice of abstract sequence')

    def abs_concat(self, a, b, st):
        """a + b for abstract lists.  When both are duplicate-free the result is treated as duplicate-free too, which is
        only right if they are disjoint: that becomes an obligation (a candidate listed twice would be processed twice)."""
        if a.ek != b.ek:
            raise Unsupported('concatenation of different element kinds')
        n = a.length + b.length
        if a.distinct and b.distinct and a.pos is not None and b.pos is not None:
            ex = self.ex
            t = z3.Int('t!cat')
            caller = ex.cur_func.qualname if ex.cur_func is not None else '?'
            if not getattr(ex, 'muted', 0):
                ex.col.add('PRE', ex.cur_props or [], caller, 'concat:disjoint',
                           'lists that are concatenated and then processed element by element have no element in common',
                           self.assumptions(st), z3.ForAll([t], z3.Not(z3.And(a.mem(t), b.mem(t)))))
            from .l2 import mk_abs
            mem = lambda t_: z3.Or(a.mem(t_), b.mem(t_))       # noqa
            R = mk_abs(self, st, a.ek, mem, n, base='cat', distinct=True)
            R.facts = R.facts + a.facts + b.facts
            return R
        return SAbs(a.ek, lambda t_: z3.Or(a.mem(t_), b.mem(t_)), n, distinct=False,
                    ordered=False, name=a.name + '+' + b.name, facts=a.facts + b.facts)
