"""
Replay of refuted obligations on the real code, and known-finding matching.
"""
import json
import os
import re
import subprocess
import z3

from .sv import STR

HERE = os.path.dirname(os.path.abspath(__file__))
ROOT = os.path.dirname(HERE)
REPO = os.environ.get('DROOP_REPO', '/repo')
NATIVE_PY = '/venv/bin/python'


def safe(s):
    return re.sub(r'[^A-Za-z0-9_.\-]+', '_', s)[:140]


def match_known(ob, known, pid):
    for kf in known.get('findings', []):
        if kf.get('property') != pid:
            continue
        pat = kf.get('obligation')
        if pat and re.search(pat, ob.id):
            return kf
    return None


def match_known_bounded(v, known, pid):
    for kf in known.get('findings', []):
        if kf.get('property') != pid:
            continue
        pat = kf.get('bounded')
        if pat and re.search(pat, v.get('what', '')):
            kf = dict(kf)
            kf['text'] = kf.get('short') or kf['text'][:240]
            return kf
    return None


class _Obs(dict):
    "observable name -> z3 constant of the serialised obligation"
    def __missing__(self, k):
        return z3.Int('OBS:' + k)


def _frozen_solver(ob, timeout):
    ob.freeze()
    fz = getattr(ob, 'frozen', None)
    if not fz:
        return None
    s = z3.Solver()
    s.set('timeout', timeout)
    s.from_string(fz['main'])        # assumptions, negated goal and the OBS:<name> == <term> definitions
    return s


def check_known(ob, kf):
    """re-solve the refuted obligation with the finding's characteristic predicate excluded;
    True iff it is then proved (so this refutation is exactly the known finding)"""
    pred = kf.get('predicate')
    if pred is None:
        return True
    s = _frozen_solver(ob, 10000)
    if s is None:
        return False
    try:
        env = {'o': _Obs(), 'z3': z3, 'And': z3.And, 'Or': z3.Or, 'Not': z3.Not}
        p = eval(pred, env)         # predicate text comes from the committed known_findings.json
    except Exception:
        return False
    s.add(z3.Not(p))
    return s.check() == z3.unsat


def replay(ob, pid):
    "write the replay file; run the native harness when a family handler exists; -> (path, confirmed)"
    os.makedirs(os.path.join(ROOT, 'replays'), exist_ok=True)
    path = os.path.join(ROOT, 'replays', safe('%s_%s' % (pid, ob.id)) + '.json')
    model = realisable_model(ob) or ob.model or {}
    observ = {}
    for k, v in model.items():
        if k.startswith('OBS:'):
            observ[k[4:]] = v
    strs = {}
    for k, v in observ.items():
        if k.endswith('#str'):
            try:
                tab = ob.meta.get('strs') or {}
                strs[k] = tab.get(int(v), STR.rev.get(int(v)))
            except Exception:
                strs[k] = None
    doc = {
        'property': pid,
        'obligation': ob.id,
        'kind': ob.kind,
        'function': ob.func,
        'statement': ob.desc,
        'backend': ob.backend,
        'solver_output': {k: v for k, v in list(model.items())[:80]},
        'observables': observ,
        'strings': strs,
        'meta': {k: v for k, v in ob.meta.items() if k in ('line', 'exc', 'trace', 'contract', 'callee', 'family')},
        'native': None,
        'detail': ob.detail,
        'input': ob.meta.get('input') if ob.meta else None,
    }
    confirmed = False
    fam = family_of(ob)
    doc['family'] = fam
    with open(path, 'w') as f:
        json.dump(doc, f, indent=1, default=str)
    if fam is not None and (model or doc['input'] is not None):
        try:
            env = dict(os.environ)
            env['PYTHONPATH'] = REPO
            p = subprocess.run([NATIVE_PY, os.path.join(ROOT, 'replay_native.py'), path], capture_output=True,
                               text=True, timeout=120, env=env)
            out = (p.stdout or '').strip().splitlines()
            res = json.loads(out[-1]) if out else {'confirmed': None, 'detail': 'no output: ' + (p.stderr or '')[-400:]}
        except Exception as e:     # noqa
            res = {'confirmed': None, 'detail': 'replay harness failed: %s' % e}
        doc['native'] = res
        confirmed = bool(res.get('confirmed'))
        with open(path, 'w') as f:
            json.dump(doc, f, indent=1, default=str)
    return path, confirmed


def realisable_model(ob):
    """re-solve a refuted obligation under realisability constraints (pow10 is the real power of
    ten on 0..24, digit-count class attributes are small) so that the model denotes real objects"""
    if ob.must != 'valid':
        return None
    from .sv import pow10
    try:
        s = _frozen_solver(ob, 8000)
    except Exception:
        return None
    if s is None:
        return None
    for i in range(0, 25):
        s.add(pow10(i) == 10 ** i)
    txt = ob.frozen['main']
    for m in set(re.findall(r'\|?OBS:([A-Za-z_][A-Za-z0-9_.]*\.(?:precision|guard|display|dp))\|?', txt)):
        c = z3.Int('OBS:' + m)
        s.add(c >= 0, c <= 9)
    if s.check() != z3.sat:
        return None
    m = s.model()
    out = {}
    for d in m.decls():
        if d.arity() == 0:
            out[d.name()] = str(m[d])
    return out


def family_of(ob):
    f = ob.func or ''
    if ob.meta.get('family'):
        return ob.meta['family']
    if f.startswith('droop.values.'):
        return 'values'
    if f.startswith('droop.options.'):
        return 'options'
    return None
