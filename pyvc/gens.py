"""
Property-specific generators beyond sidecar contracts: syntactic frame obligations (SCAN) read
off the current AST, and generic site obligations over the rule modules.
Each generator takes the RunCtx and adds obligations to ctx.col.
"""
import ast
import os
import re

from .models import rational_wrapped

RULE_MODULES = ['droop.rules.wigm', 'droop.rules.wigm_prf', 'droop.rules.cfer', 'droop.rules.scotland',
                'droop.rules.mpls', 'droop.rules.meek', 'droop.rules.meek_prf', 'droop.rules.qpq']


def own_walk(fn_node):
    "nodes of a function body, not descending into nested function definitions"
    todo = [n for n in fn_node.body if not isinstance(n, (ast.FunctionDef, ast.ClassDef))]
    while todo:
        n = todo.pop()
        yield n
        for c in ast.iter_child_nodes(n):
            if isinstance(c, (ast.FunctionDef, ast.ClassDef)):
                continue
            todo.append(c)


def scan(ctx, props, where, anchor, desc, ok, detail=None, shape=False, meta=None):
    """a decidable check on the AST.  shape=True marks a *recognition of one way of writing it*: when the source no
    longer has that shape the code may still be right (a rename, an equivalent rewrite), so the obligation is then
    undecided - the bounded stand-in decides - and never a violation.  Structural analyses (writer sets, name sets,
    definite assignment, imports) are refutable."""
    ob = ctx.col.add_done('SCAN', props, where, anchor, desc, bool(ok), detail=detail, meta=meta)
    if shape and not ok:
        ob.status = 'unknown'
        ob.detail = 'the source no longer has the recognised shape (%s)' % (detail or 'no match')
    return ob


def alpha(node_or_src):
    "source text with every local name replaced by its order of first appearance (insensitive to renaming)"
    node = ast.parse(node_or_src, mode='eval').body if isinstance(node_or_src, str) else node_or_src
    node = ast.parse(ast.unparse(node), mode='eval').body
    names = {}
    for n in ast.walk(node):
        pass
    out = []

    class R(ast.NodeTransformer):
        def visit_Name(self, n):
            if n.id not in names:
                names[n.id] = 'v%d' % len(names)
            return ast.copy_location(ast.Name(id=names[n.id], ctx=n.ctx), n)
    return ast.unparse(R().visit(node))


def norm_src(node):
    return ast.unparse(node)


# --------------------------------------------------------------------------------------------- C12
def gen_c12_scans(ctx):
    repo = ctx.repo
    P = ['C12']
    fx = repo.resolve('droop.values.fixed.Fixed')
    scan(ctx, P, 'droop/values/fixed.py', 'alias-truediv',
         'Fixed.__truediv__ and Fixed.__div__ are aliases of the verified __floordiv__',
         fx is not None and fx.aliases.get('__truediv__') == '__floordiv__' and fx.aliases.get('__div__') == '__floordiv__',
         detail=str(fx.aliases if fx else None))
    # Fixed.min / Rational.min delegate to builtin min over values whose comparisons are exact (contracts)
    for q in ('droop.values.fixed.Fixed.min', 'droop.values.rational.Rational.min'):
        f = repo.resolve(q)
        body = [s for s in f.node.body if not (isinstance(s, ast.Expr) and isinstance(s.value, ast.Constant))] if f else []
        ok = len(body) == 1 and isinstance(body[0], ast.Return) and norm_src(body[0].value) == 'min(vals)'
        scan(ctx, P, q, 'min-delegates', 'min(vals) is the builtin minimum under the class comparisons', ok, shape=True)
    gen_rational_wrappers(ctx, P)


def gen_rational_wrappers(ctx, P):
    repo = ctx.repo
    names = rational_wrapped(repo)
    need = set()
    for n in ('pos', 'neg', 'abs'):
        need.add('__%s__' % n)
    for n in ('add', 'sub', 'mul', 'truediv', 'floordiv'):
        need.add('__%s__' % n)
        need.add('__r%s__' % n)
    scan(ctx, P, 'droop/values/rational.py', 'wrapper-set',
         'every arithmetic operator of Fraction (and its reflected form) is re-wrapped to return Rational',
         names is not None and need <= names, detail='wrapped=%s' % sorted(names or []))
    m = repo.module('droop.values.rational')
    wm = m.functions.get('_wrap_method') if m else None
    ok = False
    if wm is not None:
        src = norm_src(ast.Module(body=[s for s in wm.node.body if not (isinstance(s, ast.Expr) and
                                                                       isinstance(s.value, ast.Constant))],
                                  type_ignores=[]))
        # closure: result is Rational(<Fraction method>(*args)); installed under the same name on Rational
        inner = [s for s in wm.node.body if isinstance(s, ast.FunctionDef)]
        if len(inner) == 1:
            ib = [s for s in inner[0].body if not (isinstance(s, ast.Expr) and isinstance(s.value, ast.Constant))]
            ok = (len(ib) == 1 and isinstance(ib[0], ast.Return) and
                  norm_src(ib[0].value) == 'Rational(fraction_method(*args))' and
                  'fraction_method = getattr(Fraction, method)' in src and
                  'setattr(Rational, method, %s)' % inner[0].name in src)
    scan(ctx, P, 'droop.values.rational._wrap_method', 'wrapper-shape',
         'a wrapper calls the Fraction method and converts the result to Rational (closure of the class)', ok, shape=True)
    rat = repo.resolve('droop.values.rational.Rational')
    scan(ctx, P, 'droop/values/rational.py', 'subclass-of-fraction',
         'Rational derives from fractions.Fraction (A-lib: exact field arithmetic and ordering)',
         rat is not None and rat.bases == ['Fraction'] and m.imports.get('Fraction') == 'fractions.Fraction')


# --------------------------------------------------------------------------------------------- C13
def gen_c13_scans(ctx):
    repo = ctx.repo
    P = ['C13']
    g = repo.resolve('droop.values.guarded.Guarded')
    scan(ctx, P, 'droop/values/guarded.py', 'alias-truediv',
         'Guarded.__truediv__ and Guarded.__div__ are aliases of the verified __floordiv__',
         g is not None and g.aliases.get('__truediv__') == '__floordiv__' and g.aliases.get('__div__') == '__floordiv__')
    # rule code reaches V only through the interface the lemmas cover
    allowed = {'exact', 'quasi_exact', 'epsilon', 'name', 'mul', 'div', 'muldiv', 'min', 'report', 'info',
               'precision', 'display', 'guard', 'initialize', 'tag', 'helps'}
    used = {}
    for mn in RULE_MODULES + ['droop.election', 'droop.record', 'droop.rules.electionmethods', 'droop.candidate']:
        m = repo.module(mn)
        if m is None:
            continue
        for n in ast.walk(m.tree):
            if isinstance(n, ast.Attribute):
                b = n.value
                if (isinstance(b, ast.Name) and b.id == 'V') or (isinstance(b, ast.Attribute) and b.attr == 'V'
                                                                  and isinstance(b.value, ast.Name) and b.value.id in ('E', 'self')):
                    used.setdefault(n.attr, []).append('%s:%d' % (mn, n.lineno))
    bad = {k: v for k, v in used.items() if k not in allowed}
    scan(ctx, P, 'droop/rules/*.py', 'V-interface',
         'rules use the arithmetic class only through the interface covered by the guard-0 lemmas', not bad,
         detail='attributes used: %s ; outside interface: %s' % (sorted(used), bad))


# --------------------------------------------------------------------------------------------- C14
def gen_c14_scans(ctx):
    repo = ctx.repo
    P = ['C14']
    files = ['droop.record', 'droop.rules.electionmethods', 'droop.rules.qpq', 'droop.rules.mpls', 'droop.election']
    for mn in files:
        m = repo.module(mn)
        if m is None:
            scan(ctx, P, mn, 'render-via-str', 'module present', False, shape=True)
            continue
        bad = []
        for n in ast.walk(m.tree):
            if isinstance(n, ast.Call) and isinstance(n.func, ast.Name) and n.func.id in ('float', 'round', 'format'):
                bad.append('%s() at line %d' % (n.func.id, n.lineno))
            if isinstance(n, ast.Call) and isinstance(n.func, ast.Attribute) and n.func.attr == 'format':
                bad.append('.format() at line %d' % n.lineno)
            if isinstance(n, ast.FormattedValue) and n.format_spec is not None:
                bad.append('f-string format spec at line %d' % n.lineno)
            if isinstance(n, ast.Constant) and isinstance(n.value, str) and re.search(r'%[-0-9.]*[feEgG]', n.value):
                bad.append('float format in literal at line %d' % n.lineno)
        scan(ctx, P, mn, 'render-via-str',
             'values reach text only through %s / str() / the JSON ValueEncoder (no float, round or format)', not bad,
             detail='; '.join(bad), shape=True)
    # the JSON encoder prints values with str()
    rec = repo.module('droop.record')
    enc_ok = False
    if rec is not None:
        for n in ast.walk(rec.tree):
            if isinstance(n, ast.FunctionDef) and n.name == 'default':
                rets = [norm_src(r.value) for r in ast.walk(n) if isinstance(r, ast.Return) and r.value is not None]
                enc_ok = 'str(obj)' in rets and 'str(values.rational.Rational(obj))' in rets
    scan(ctx, P, 'droop.record.ElectionRecord.json', 'encoder-uses-str',
         'the JSON encoder renders Fixed/Guarded/Rational (and stray Fraction) values with str()', enc_ok, shape=True)
    # %d is applied to integers only in the renderers
    bad = []
    if rec is not None:
        for n in ast.walk(rec.tree):
            if isinstance(n, ast.BinOp) and isinstance(n.op, ast.Mod) and isinstance(n.left, ast.Constant) and \
                    isinstance(n.left.value, str) and '%d' in n.left.value:
                src = norm_src(n.right)
                if not re.fullmatch(r"(self\['seats'\]|self\['nballots'\]|A\['round'\])", src):
                    bad.append('%s %% %s' % (n.left.value.strip(), src))
    scan(ctx, P, 'droop/record.py', 'percent-d-ints', '%d is applied to seats / ballots / round numbers only', not bad,
         detail='; '.join(bad), shape=True)


# --------------------------------------------------------------------------------------------- C17
STATUTORY = {
    'droop.rules.scotland': {'arithmetic', 'precision', 'display'},
    'droop.rules.mpls': {'arithmetic', 'precision', 'display'},
    'droop.rules.wigm_prf': {'arithmetic', 'precision', 'display', 'rule'},
    'droop.rules.cfer': {'arithmetic', 'precision', 'display', 'rule'},
    'droop.rules.meek_prf': {'arithmetic', 'precision', 'display', 'omega'},
    'droop.rules.qpq': {'arithmetic', 'precision', 'guard', 'display'},
}


def option_names_used(module):
    "string literals passed as the option name to getopt/setopt, and any non-literal use"
    names, dynamic = set(), []
    for n in ast.walk(module.tree):
        if isinstance(n, ast.Call) and isinstance(n.func, ast.Attribute) and n.func.attr in ('getopt', 'setopt'):
            if n.args and isinstance(n.args[0], ast.Constant) and isinstance(n.args[0].value, str):
                names.add(n.args[0].value)
            else:
                dynamic.append(n.lineno)
    return names, dynamic


def gen_c17_scans(ctx):
    repo = ctx.repo
    P = ['C17']
    for mn, allowed in STATUTORY.items():
        m = repo.module(mn)
        names, dyn = option_names_used(m) if m else (set(), [0])
        scan(ctx, P, mn, 'option-frame',
             'a statutory rule reads no option other than the ones it forces (and its own name)',
             m is not None and names <= allowed and not dyn, detail='reads %s dynamic@%s' % (sorted(names), dyn))
        # the rule object never looks at the option dictionaries directly
        direct = []
        if m is not None:
            for n in ast.walk(m.tree):
                if isinstance(n, ast.Attribute) and n.attr in ('cmd_options', 'file_options', 'force', 'default'):
                    direct.append(n.lineno)
        scan(ctx, P, mn, 'no-direct-layer-access', 'rule code reaches options only through getopt/setopt', not direct,
             detail=str(direct))
    # values/*.py read only arithmetic/precision/guard/display
    for mn in ('droop.values.fixed', 'droop.values.guarded', 'droop.values.rational', 'droop.values'):
        m = repo.module(mn)
        names, dyn = option_names_used(m) if m else (set(), [0])
        scan(ctx, P, mn, 'option-frame', 'arithmetic classes read arithmetic/precision/guard/display only',
             m is not None and names <= {'arithmetic', 'precision', 'guard', 'display'} and not dyn,
             detail='reads %s' % sorted(names))
    # merge order in Election.__init__: file options -> rule.options() -> ArithmeticClass
    f = repo.resolve('droop.election.Election.__init__')
    order = []
    if f is not None:
        for n in ast.walk(f.node):
            if isinstance(n, ast.Call):
                src = norm_src(n)
                if src.startswith('options.update(') and 'file_options=True' in src:
                    order.append(('update', n.lineno))
                elif src == 'self.rule.options()':
                    order.append(('rule.options', n.lineno))
                elif src.startswith('values.ArithmeticClass('):
                    order.append(('ArithmeticClass', n.lineno))
    order.sort(key=lambda x: x[1])
    scan(ctx, P, 'droop.election.Election.__init__', 'merge-order',
         'ballot-file options are merged as the file layer before rule.options(), which precedes ArithmeticClass',
         [o[0] for o in order] == ['update', 'rule.options', 'ArithmeticClass'], detail=str(order), shape=True)
    # count() of statutory rules does not call getopt at all except the name (frame for "identical count")
    for mn in STATUTORY:
        m = repo.module(mn)
        cnt = repo.resolve(mn + '.Rule.count')
        bad = []
        if cnt is not None:
            for n in ast.walk(cnt.node):
                if isinstance(n, ast.Attribute) and n.attr in ('getopt', 'setopt', 'options'):
                    bad.append(n.lineno)
        scan(ctx, P, mn + '.Rule.count', 'count-reads-no-option', 'the count itself reads no option', cnt is not None and not bad,
             detail=str(bad))


    # the record carries Options.record() under 'options'; the report header names unused() and overrides()
    hdr = repo.resolve('droop.record.ElectionRecord._ElectionRecord__fill_header') or None
    rec_mod = repo.module('droop.record')
    stores, names_unused, names_over = [], [], []
    if rec_mod is not None:
        for n in ast.walk(rec_mod.tree):
            if isinstance(n, ast.Assign) and len(n.targets) == 1 and norm_src(n.targets[0]) == "self['options']":
                stores.append(norm_src(n.value))
        src = norm_src(rec_mod.tree)
        for fn in ast.walk(rec_mod.tree):
            if not isinstance(fn, ast.FunctionDef):
                continue
            body_src = norm_src(fn)
            if 'E.options.unused()' in body_src:
                # unused = E.options.unused(); if unused: s += "...Unused options: %s\n" % ", ".join(unused)
                names_unused.append('unused = E.options.unused()' in body_src and
                                    "'\\tUnused options: %s\\n' % ', '.join(unused)" in body_src)
            if 'E.options.overrides()' in body_src:
                names_over.append('overrides = E.options.overrides()' in body_src and
                                  "'\\tOverridden options: %s\\n' % ', '.join(overrides)" in body_src)
    scan(ctx, P, 'droop.record', 'record-options', "the record's 'options' entry is Options.record() (the four layers and the effective values)",
         stores == ['E.options.record()'], detail=str(stores), shape=True)
    scan(ctx, P, 'droop.record', 'report-names-unused', 'the report header names exactly Options.unused()',
         names_unused == [True], detail=str(names_unused), shape=True)
    scan(ctx, P, 'droop.record', 'report-names-overridden', 'the report header names exactly Options.overrides()',
         names_over == [True], detail=str(names_over), shape=True)


# --------------------------------------------------------------------------------------------- C20
VALUE_CLASSES = {'droop.values.fixed': 'Fixed', 'droop.values.guarded': 'Guarded', 'droop.values.rational': 'Rational'}


def gen_c20_scans(ctx):
    repo = ctx.repo
    P = ['C20']
    # class attributes of the arithmetic classes are written only in initialize (and the comparison statistics in __cmp__)
    for mn, cn in VALUE_CLASSES.items():
        m = repo.module(mn)
        bad = []
        if m is not None:
            ci = m.classes.get(cn)
            for meth in (ci.methods.values() if ci else []):
                for n in ast.walk(meth.node):
                    tgts = []
                    if isinstance(n, ast.Assign):
                        tgts = n.targets
                    elif isinstance(n, ast.AugAssign):
                        tgts = [n.target]
                    for t in tgts:
                        if isinstance(t, ast.Attribute) and isinstance(t.value, ast.Name) and t.value.id in ('cls', cn):
                            ok = meth.name == 'initialize' or (meth.name == '__cmp__' and t.attr in ('maxDiff', 'minDiff'))
                            if not ok:
                                bad.append('%s.%s in %s' % (t.value.id, t.attr, meth.name))
                    if isinstance(n, ast.Call) and isinstance(n.func, ast.Name) and n.func.id == 'setattr':
                        bad.append('setattr in %s' % meth.name)
        scan(ctx, P, mn, 'class-writes', 'class attributes of %s are written only by initialize()' % cn +
             (' and the statistics in __cmp__' if cn == 'Guarded' else ''), m is not None and not bad, detail='; '.join(bad))
    # nobody outside values/ assigns attributes of the arithmetic class
    bad = []
    for mn, m in repo.modules.items():
        if mn.startswith('droop.values'):
            continue
        for n in ast.walk(m.tree):
            tgts = n.targets if isinstance(n, ast.Assign) else ([n.target] if isinstance(n, ast.AugAssign) else [])
            for t in tgts:
                if isinstance(t, ast.Attribute):
                    b = t.value
                    if (isinstance(b, ast.Name) and b.id in ('V', 'Fixed', 'Guarded', 'Rational')) or \
                            (isinstance(b, ast.Attribute) and b.attr == 'V'):
                        bad.append('%s:%d' % (mn, n.lineno))
    scan(ctx, P, 'droop/**/*.py', 'no-foreign-class-writes', 'no module outside values/ assigns an attribute of the arithmetic class',
         not bad, detail=str(bad))
    # no other process-global state: no `global`, no module-level container mutated from a function
    bad = []
    for mn, m in repo.modules.items():
        if mn == 'Droop':
            continue
        mod_names = set(m.globals_) | {t.id for s_ in m.tree.body if isinstance(s_, ast.Assign) for t in s_.targets
                                       if isinstance(t, ast.Name)}
        for fn in [f for f in repo.all_functions() if f.module is m]:
            local = {a.arg for a in fn.node.args.args} | {n.id for n in ast.walk(fn.node) if isinstance(n, ast.Name) and isinstance(n.ctx, ast.Store)}
            for n in ast.walk(fn.node):
                if isinstance(n, (ast.Global, ast.Nonlocal)):
                    bad.append('%s: %s in %s' % (mn, type(n).__name__.lower(), fn.name))
                tgts = n.targets if isinstance(n, ast.Assign) else ([n.target] if isinstance(n, ast.AugAssign) else [])
                for t in tgts:
                    if isinstance(t, ast.Subscript) and isinstance(t.value, ast.Name) and t.value.id in mod_names and \
                            t.value.id not in local:
                        bad.append('%s: %s[...] written in %s' % (mn, t.value.id, fn.name))
                if isinstance(n, ast.Call) and isinstance(n.func, ast.Attribute) and isinstance(n.func.value, ast.Name) and \
                        n.func.value.id in mod_names and n.func.value.id not in local and \
                        n.func.attr in ('append', 'extend', 'add', 'update', 'pop', 'clear', 'remove', 'setdefault', 'insert'):
                    bad.append('%s: %s.%s() in %s' % (mn, n.func.value.id, n.func.attr, fn.name))
    scan(ctx, P, 'droop/**/*.py', 'no-module-state', 'no function mutates module-level state (no global statements, no '
         'module-level containers written after import)', not bad, detail='; '.join(bad))
    # rule classes: class-level constants are never assigned through the class
    bad = []
    for mn in RULE_MODULES + ['droop.rules.electionmethods', 'droop.rules.electionrule']:
        m = repo.module(mn)
        for n in ast.walk(m.tree):
            tgts = n.targets if isinstance(n, ast.Assign) else ([n.target] if isinstance(n, ast.AugAssign) else [])
            for t in tgts:
                if isinstance(t, ast.Attribute) and isinstance(t.value, ast.Name) and t.value.id in ('cls', 'Rule', 'MethodMeek', 'MethodWIGM'):
                    bad.append('%s:%d' % (mn, n.lineno))
    scan(ctx, P, 'droop/rules/*.py', 'rule-class-constants', 'rule classes never assign their class attributes at run time', not bad,
         detail=str(bad))
    # the profile is only read by Election and the rules
    bad = []
    for mn in RULE_MODULES + ['droop.election', 'droop.record', 'droop.candidate', 'droop.candidates']:
        m = repo.module(mn)
        for n in ast.walk(m.tree):
            tgts = n.targets if isinstance(n, ast.Assign) else ([n.target] if isinstance(n, ast.AugAssign) else [])
            for t in tgts:
                src = norm_src(t)
                if re.search(r'(electionProfile|profile)\.\w+(\[|$)', src) and not src.startswith('self.electionProfile') \
                        or re.search(r'\.ranking\[', src) or re.match(r'bl\.', src):
                    bad.append('%s:%d %s' % (mn, n.lineno, src))
                if src.startswith('self.electionProfile.') or src.startswith('E.electionProfile.'):
                    bad.append('%s:%d %s' % (mn, n.lineno, src))
            if isinstance(n, ast.Call) and isinstance(n.func, ast.Attribute) and n.func.attr in ('append', 'remove', 'pop', 'add', 'extend') \
                    and re.search(r'ranking|electionProfile|\bbl\b', norm_src(n.func.value)):
                bad.append('%s:%d %s' % (mn, n.lineno, norm_src(n)))
    # aliases: a name bound (assignment, for target, comprehension target) to an expression that reads `.ranking` (or
    # another such name) denotes data shared with the ElectionProfile; it must not be mutated in place either
    MUTATORS = {'append', 'remove', 'pop', 'add', 'extend', 'insert', 'sort', 'reverse', 'clear', 'update', 'discard', 'popitem',
                'setdefault', '__setitem__', '__delitem__'}
    SHARED_ATTRS = ('ranking', 'ballotLines', 'ballotLinesEqual')

    def profile_expr(e):
        "an expression that denotes the ElectionProfile (self.electionProfile, E.electionProfile, a local called profile...)"
        src = norm_src(e)
        return src.endswith('electionProfile') or src in ('profile', 'electionProfile')
    # inter-procedural step: parameters that receive data shared with the profile (an argument that reads it is passed in);
    # callees are resolved by bare method / function name within the package
    by_name = {}
    for f in repo.all_functions():
        by_name.setdefault(f.name, []).append(f)
    param_taint = {}        # qualname -> set of tainted parameter names

    def analyse(fn, mn, report):
        tainted = set(param_taint.get(fn.qualname, ()))
        obj_tainted = set()     # names that denote a ballot-line OBJECT of the profile (attribute stores through them count)

        def mentions_lines(e):
            for x in ast.walk(e):
                if isinstance(x, ast.Attribute) and x.attr in ('ballotLines', 'ballotLinesEqual'):
                    return True
                if isinstance(x, ast.Name) and x.id in obj_tainted:
                    return True
            return False

        def constructs(e):
            "a call of a class (capitalised name): a new object, not an alias"
            if isinstance(e, ast.Call):
                nm = e.func.attr if isinstance(e.func, ast.Attribute) else (e.func.id if isinstance(e.func, ast.Name) else '')
                return nm[:1].isupper() or nm in ('list', 'tuple', 'sorted', 'set', 'len', 'dict', 'int', 'sum', 'str', 'min', 'max')
            return isinstance(e, (ast.Compare, ast.BoolOp, ast.BinOp, ast.Constant, ast.JoinedStr))

        VIEWS = ('items', 'values', 'keys', 'get', 'setdefault', 'pop', '__getitem__')

        def reads_shared(e):
            """does the value of e (possibly) alias data of the profile?  The result of an arbitrary call is taken to be fresh
            (only views / lookups on a shared receiver hand out shared data)"""
            if isinstance(e, ast.Attribute):
                if e.attr in SHARED_ATTRS or (e.attr == 'options' and profile_expr(e.value)):
                    return True
                return reads_shared(e.value)
            if isinstance(e, ast.Name):
                return e.id in tainted
            if isinstance(e, ast.Subscript):
                return reads_shared(e.value)
            if isinstance(e, ast.Call):
                if isinstance(e.func, ast.Attribute) and e.func.attr in VIEWS:
                    return reads_shared(e.func.value) or any(reads_shared(a) for a in e.args)
                if isinstance(e.func, ast.Name) and e.func.id in ('enumerate', 'reversed', 'zip', 'iter', 'next', 'filter'):
                    return any(reads_shared(a) for a in e.args)
                return False
            if isinstance(e, (ast.GeneratorExp, ast.ListComp, ast.SetComp)):
                return any(reads_shared(g.iter) for g in e.generators)
            if isinstance(e, ast.IfExp):
                return reads_shared(e.body) or reads_shared(e.orelse)
            if isinstance(e, ast.BoolOp):
                return any(reads_shared(v) for v in e.values)
            if isinstance(e, (ast.Tuple, ast.List)):
                return any(reads_shared(v) for v in e.elts)
            if isinstance(e, ast.Starred):
                return reads_shared(e.value)
            return False

        def copies(e):
            "list(x), tuple(x), sorted(x), x[:] used as a value, comprehensions: a new container"
            return isinstance(e, (ast.ListComp, ast.SetComp, ast.DictComp, ast.GeneratorExp, ast.Tuple, ast.List, ast.Compare, ast.BoolOp)) or \
                (isinstance(e, ast.Call) and isinstance(e.func, ast.Name) and e.func.id in ('list', 'tuple', 'sorted', 'set', 'len', 'dict', 'int', 'sum'))
        for _ in range(3):
            for n in ast.walk(fn.node):
                if isinstance(n, ast.Assign) and reads_shared(n.value) and not copies(n.value):
                    for t in n.targets:
                        for x in ast.walk(t):
                            if isinstance(x, ast.Name) and isinstance(x.ctx, ast.Store):
                                tainted.add(x.id)
                if isinstance(n, (ast.For, ast.comprehension)) and reads_shared(n.iter):
                    for x in ast.walk(n.target):
                        if isinstance(x, ast.Name):
                            tainted.add(x.id)
                # ballot-line objects: loop targets over the lines themselves, and names assigned from expressions built on them
                if isinstance(n, (ast.For, ast.comprehension)) and mentions_lines(n.iter) and \
                        not isinstance(n.iter, (ast.GeneratorExp, ast.ListComp)):
                    for x in ast.walk(n.target):
                        if isinstance(x, ast.Name):
                            obj_tainted.add(x.id)
                if isinstance(n, ast.Assign) and mentions_lines(n.value) and not constructs(n.value) and \
                        not isinstance(n.value, ast.Attribute):
                    for t in n.targets:
                        if isinstance(t, ast.Name):
                            obj_tainted.add(t.id)
        changed = False
        for n in ast.walk(fn.node):
            tgts = n.targets if isinstance(n, ast.Assign) else ([n.target] if isinstance(n, ast.AugAssign) else [])
            for t in tgts:
                if isinstance(t, ast.Subscript) and isinstance(t.value, ast.Name) and t.value.id in tainted:
                    report('%s:%d in-place store through alias %s' % (mn, n.lineno, norm_src(t)))
                # an attribute of a shared object (a ballot line of the profile) assigned through an alias
                if isinstance(t, ast.Attribute) and isinstance(t.value, ast.Name) and t.value.id in obj_tainted and t.value.id != 'self':
                    report('%s:%d attribute of a shared object written through alias %s' % (mn, n.lineno, norm_src(t)))
            if isinstance(n, ast.Call) and isinstance(n.func, ast.Attribute) and n.func.attr in MUTATORS \
                    and isinstance(n.func.value, ast.Name) and n.func.value.id in tainted:
                report('%s:%d %s' % (mn, n.lineno, norm_src(n)))
            if isinstance(n, ast.Delete):
                for t in n.targets:
                    if isinstance(t, ast.Subscript) and isinstance(t.value, ast.Name) and t.value.id in tainted:
                        report('%s:%d del through alias' % (mn, n.lineno))
            # shared data handed to another function of the package: its parameter is tainted there
            if isinstance(n, ast.Call):
                cname = n.func.attr if isinstance(n.func, ast.Attribute) else (n.func.id if isinstance(n.func, ast.Name) else None)
                cands = by_name.get(cname, []) if cname else []
                if len(cands) == 1 and not copies(n):
                    g = cands[0]
                    params = [a.arg for a in g.node.args.args]
                    if params and params[0] in ('self', 'cls') and isinstance(n.func, ast.Attribute):
                        params = params[1:]
                    for i, a in enumerate(n.args):
                        if i < len(params) and reads_shared(a) and not copies(a):
                            cur = param_taint.setdefault(g.qualname, set())
                            if params[i] not in cur:
                                cur.add(params[i])
                                changed = True
                    for kw in n.keywords:
                        if kw.arg in params and reads_shared(kw.value) and not copies(kw.value):
                            cur = param_taint.setdefault(g.qualname, set())
                            if kw.arg not in cur:
                                cur.add(kw.arg)
                                changed = True
        return changed
    start = [f for mn in RULE_MODULES + ['droop.election'] for f in repo.all_functions() if f.module is repo.module(mn)]
    for _round in range(4):
        ch = False
        for fn in start + [f for f in repo.all_functions() if f.qualname in param_taint and f not in start]:
            ch |= analyse(fn, fn.module.name if hasattr(fn.module, 'name') else '?', lambda x: None)
        if not ch:
            break
    seen = set()

    def rep(x):
        if x not in seen:
            seen.add(x)
            bad.append(x)
    for fn in start + [f for f in repo.all_functions() if f.qualname in param_taint and f not in start]:
        analyse(fn, getattr(fn.module, 'name', None) or fn.qualname.rsplit('.', 2)[0], rep)
    scan(ctx, P + ['C17', 'C08'], 'droop/election.py + rules', 'profile-read-only',
         'Election, the rules and whatever they hand profile data to only read the ElectionProfile (rankings, ballot lines and the '
         'ballot-file option list are shared with it, never written)', not bad, detail='; '.join(bad))


# --------------------------------------------------------------------------------------------- C09 / C07 single-writer scans
def attr_stores(repo, attr):
    out = []
    for mn, m in repo.modules.items():
        for fn in [f for f in repo.all_functions() if f.module is m]:
            for n in ast.walk(fn.node):
                tgts = n.targets if isinstance(n, ast.Assign) else ([n.target] if isinstance(n, (ast.AugAssign, ast.AnnAssign)) else [])
                for t in tgts:
                    for tt in ast.walk(t):
                        if isinstance(tt, ast.Attribute) and tt.attr == attr and isinstance(tt.ctx, ast.Store):
                            out.append((fn.qualname, n.lineno))
    return sorted(set(out))


def gen_c09_scans(ctx):
    repo = ctx.repo
    P = ['C09']
    st_ = attr_stores(repo, 'state')
    ok = {q for q, _ in st_} <= {'droop.candidate.Candidate.__init__', 'droop.candidate.Candidate.elect',
                                 'droop.candidate.Candidate.unelect', 'droop.candidate.Candidate.defeat'}
    scan(ctx, P + ['C18'], 'droop/**/*.py', 'single-writer-state',
         'Candidate.state is assigned only in __init__, elect, unelect, defeat (elect and defeat record the action that names the candidate)', ok, detail=str(st_))
    pe = attr_stores(repo, 'pending')
    ok = {q for q, _ in pe} <= {'droop.candidate.Candidate.__init__', 'droop.candidate.Candidate.elect', 'droop.candidate.Candidate.unpend'}
    scan(ctx, P, 'droop/**/*.py', 'single-writer-pending', 'Candidate.pending is assigned only in __init__, elect, unpend', ok, detail=str(pe))
    rd = attr_stores(repo, 'round')
    ok = {q for q, _ in rd} <= {'droop.election.Election.__init__', 'droop.election.Election.newRound'}
    scan(ctx, P, 'droop/**/*.py', 'single-writer-round', 'E.round is assigned only in Election.__init__ and newRound', ok, detail=str(rd))
    bad = []
    for mn, m in repo.modules.items():
        for n in ast.walk(m.tree):
            if isinstance(n, ast.Call) and isinstance(n.func, ast.Name) and n.func.id in ('setattr', 'delattr') and mn != 'droop.values.rational':
                bad.append('%s:%d' % (mn, n.lineno))
            if isinstance(n, ast.Attribute) and n.attr == '__dict__':
                bad.append('%s:%d __dict__' % (mn, n.lineno))
    scan(ctx, P, 'droop/**/*.py', 'no-reflective-writes', 'no setattr/__dict__ writes outside the Rational wrapper loop', not bad, detail=str(bad))
    # unelect is called only in QPQ's restart block
    calls = []
    for mn, m in repo.modules.items():
        for n in ast.walk(m.tree):
            if isinstance(n, ast.Call) and isinstance(n.func, ast.Attribute) and n.func.attr == 'unelect':
                calls.append('%s:%d' % (mn, n.lineno))
    qp = repo.resolve('droop.rules.qpq.Rule.count')
    ok = False
    if qp is not None and len(calls) == 1 and calls[0].startswith('droop.rules.qpq:'):
        for n in ast.walk(qp.node):
            if isinstance(n, ast.If) and norm_src(n.test) == 'restart':
                ok = any(isinstance(c, ast.Call) and isinstance(c.func, ast.Attribute) and c.func.attr == 'unelect' for c in ast.walk(n))
    scan(ctx, P, 'droop.rules.qpq.Rule.count', 'unelect-only-in-restart', 'unelect() is called only inside QPQ\'s restart block', ok, detail=str(calls), shape=True)
    # ballots: index / multiplier / ranking written only by Ballot methods
    for attr, allowed in (('index', {'droop.election.Election.Ballot.__init__', 'droop.election.Election.Ballot.advance',
                                     'droop.election.Election.Ballot.restart'}),
                          ('multiplier', {'droop.election.Election.Ballot.__init__', 'droop.profile.ElectionProfile.BallotLine.__init__'}),
                          ('ranking', {'droop.election.Election.Ballot.__init__', 'droop.profile.ElectionProfile.BallotLine.__init__'})):
        w = attr_stores(repo, attr)
        scan(ctx, ['C09', 'C06', 'C02'], 'droop/**/*.py', 'single-writer-ballot-' + attr,
             'Ballot.%s is assigned only by the Ballot / BallotLine methods (data-structure invariant of ballots)' % attr,
             {q for q, _ in w} <= allowed, detail=str(w))


def gen_rounds_protocol(ctx):
    """A-rounds (used by the Scottish breakTie contract): E.rounds[n] is the copy of the candidates taken when round
    n+1 began, and len(E.rounds) == E.round"""
    repo = ctx.repo
    P = ['C07', 'C03', 'C11']
    writers, appends = [], []
    for fn in repo.all_functions():
        for n in own_walk(fn.node):
            if isinstance(n, ast.Attribute) and n.attr == 'rounds' and isinstance(n.ctx, ast.Store):
                writers.append(fn.qualname)
            if isinstance(n, ast.Call) and isinstance(n.func, ast.Attribute) and isinstance(n.func.value, ast.Attribute) \
                    and n.func.value.attr == 'rounds' and n.func.attr not in ('__getitem__', 'index', 'count', 'copy'):
                appends.append((fn.qualname, n.func.attr, norm_src(n)))
    scan(ctx, P, 'droop/**/*.py', 'rounds-writers', 'E.rounds is created empty by Election.__init__ and changed only by ElectionRecord.action',
         writers == ['droop.election.Election.__init__'] and
         [(a, b) for a, b, _ in appends] == [('droop.record.ElectionRecord.action', 'append')],
         detail='%s %s' % (writers, appends))
    act = repo.resolve('droop.record.ElectionRecord.action')
    ok = False
    if act is not None:
        for n in ast.walk(act.node):
            if isinstance(n, ast.If) and norm_src(n.test) == "tag == 'round'" and len(n.body) == 1 and not n.orelse \
                    and norm_src(n.body[0]) == 'E.rounds.append(C.copy())':
                ok = True
    scan(ctx, P, 'droop.record.ElectionRecord.action', 'rounds-append', "a copy of the candidates is saved exactly when a 'round' action is recorded",
         ok, shape=True)
    cp = repo.resolve('droop.candidates.Candidates.copy')
    ok = cp is not None and 'copy.copy(c)' in norm_src(cp.node) and 'for c in self' in norm_src(cp.node)
    scan(ctx, P, 'droop.candidates.Candidates.copy', 'rounds-copy', 'Candidates.copy() holds a shallow copy of every candidate (tally, id and ballot order as they were)', ok, shape=True)
    nr = repo.resolve('droop.election.Election.newRound')
    body = [norm_src(x) for x in nr.node.body if not (isinstance(x, ast.Expr) and isinstance(x.value, ast.Constant))] if nr else []
    scan(ctx, P, 'droop.election.Election.newRound', 'rounds-newround', "newRound() adds one to E.round and records one 'round' action",
         body == ['self.round += 1', "self.logAction('round', 'New Round')"], detail=str(body), shape=True)
    rw = []
    for fn in repo.all_functions():
        for n in own_walk(fn.node):
            if isinstance(n, (ast.Assign, ast.AugAssign)):
                for t in (n.targets if isinstance(n, ast.Assign) else [n.target]):
                    if isinstance(t, ast.Attribute) and t.attr == 'round' and fn.qualname.startswith('droop.'):
                        rw.append(fn.qualname)
            if isinstance(n, ast.Call) and isinstance(n.func, ast.Attribute) and n.func.attr == 'logAction' and n.args \
                    and isinstance(n.args[0], ast.Constant) and n.args[0].value == 'round' and fn.qualname != 'droop.election.Election.newRound':
                rw.append('logs round: ' + fn.qualname)
    scan(ctx, P, 'droop/**/*.py', 'rounds-round-writers', "E.round is written only by Election.__init__ and newRound(); nothing else records a 'round' action",
         sorted(set(rw)) == ['droop.election.Election.__init__', 'droop.election.Election.newRound'], detail=str(sorted(set(rw))))


def gen_c07_scans(ctx):
    repo = ctx.repo
    P = ['C07']
    gen_rounds_protocol(ctx)
    reads = []
    for mn, m in repo.modules.items():
        for fn in [f for f in repo.all_functions() if f.module is m]:
            for n in own_walk(fn.node):
                if isinstance(n, ast.Attribute) and n.attr == 'tieOrder' and isinstance(n.ctx, ast.Load):
                    reads.append(fn.qualname)
    ok = set(reads) <= {'droop.candidates.Candidates.byTieOrder', 'droop.candidate.Candidate.as_dict',
                        'droop.election.Election.__init__', 'droop.profile.ElectionProfile.__init__',
                        'droop.profile.ElectionProfile.__bltOptionTie'}
    scan(ctx, P, 'droop/**/*.py', 'tieorder-reads', 'the tie-break order is read only by Candidates.byTieOrder (and copied at construction / into the record)',
         ok, detail=str(sorted(set(reads))))
    callers = []
    for mn, m in repo.modules.items():
        for fn in [f for f in repo.all_functions() if f.module is m]:
            for n in own_walk(fn.node):
                if isinstance(n, ast.Call) and isinstance(n.func, ast.Attribute) and n.func.attr == 'byTieOrder':
                    callers.append(fn.qualname)
                if isinstance(n, ast.Constant) and n.value == 'tie' and fn.qualname.startswith('droop.rules') and False:
                    pass
    ok = all(q.endswith('.breakTie') or q == 'droop.candidates.Candidates.select' for q in callers)
    scan(ctx, P, 'droop/**/*.py', 'bytieorder-callers', 'byTieOrder is called only from the breakTie closures (after the single-candidate return) and select(order="tie")',
         ok, detail=str(sorted(set(callers))))
    sel = []
    for mn in RULE_MODULES:
        m = repo.module(mn)
        for n in ast.walk(m.tree):
            if isinstance(n, ast.keyword) and n.arg == 'order' and isinstance(n.value, ast.Constant) and n.value.value == 'tie':
                sel.append('%s:%d' % (mn, n.value.lineno))
    scan(ctx, P, 'droop/rules/*.py', 'no-tie-ordered-select', 'no rule selects candidates in tie order outside breakTie', not sel, detail=str(sel))


# --------------------------------------------------------------------------------------------- C18 / C19 record
def _func_src(repo, q):
    f = repo.resolve(q)
    return f, (ast.unparse(f.node) if f is not None else '')


def gen_fill_scan(ctx):
    "frame of the trusted contract of ElectionRecord._fill: the header filler never touches the action list"
    repo = ctx.repo
    f = repo.resolve('droop.record.ElectionRecord._fill')
    bad = []
    if f is not None:
        for n in ast.walk(f.node):
            if isinstance(n, ast.Constant) and n.value == 'actions':
                bad.append(n.lineno)
            if isinstance(n, ast.Attribute) and n.attr in ('append', 'pop', 'clear', 'extend', 'insert', 'remove') :
                bad.append(n.lineno)
    scan(ctx, ['C18', 'C19'], 'droop.record.ElectionRecord._fill', 'fill-does-not-touch-actions',
         'the header filler neither names the action list nor mutates any list', f is not None and not bad, detail=str(bad))


def gen_c19_scans(ctx):
    repo = ctx.repo
    P = ['C19']
    gen_fill_scan(ctx)
    f, _ = _func_src(repo, 'droop.record.ElectionRecord.action')
    ok = False
    detail = ''
    if f is not None:
        # every append of A to self['actions'] is the last thing done with A on its path
        appends = []
        for blk in ast.walk(f.node):
            body = getattr(blk, 'body', None)
            if not isinstance(body, list):
                continue
            for i, st_ in enumerate(body):
                if isinstance(st_, ast.Expr) and norm_src(st_.value) == "self['actions'].append(A)":
                    nxt = body[i + 1] if i + 1 < len(body) else None
                    appends.append(nxt is None or isinstance(nxt, ast.Return))
        ok = len(appends) >= 1 and all(appends)
        detail = 'appends followed by return/end: %s' % appends
    scan(ctx, P, 'droop.record.ElectionRecord.action', 'complete-before-append',
         'an action dictionary is appended to the record only when it is complete (append is the last step on its path)', ok, detail, shape=True)
    # 'actions' is only ever appended to
    bad = []
    for mn, m in repo.modules.items():
        for n in ast.walk(m.tree):
            src = None
            if isinstance(n, (ast.Assign, ast.AugAssign, ast.Delete)):
                tg = n.targets if isinstance(n, (ast.Assign, ast.Delete)) else [n.target]
                for t in tg:
                    if "['actions']" in norm_src(t) and not (mn == 'droop.record' and norm_src(n) == "self['actions'] = list()"):
                        bad.append('%s:%d %s' % (mn, n.lineno, norm_src(n)[:60]))
            if isinstance(n, ast.Call) and isinstance(n.func, ast.Attribute) and "['actions']" in norm_src(n.func.value) \
                    and n.func.attr != 'append':
                bad.append('%s:%d .%s()' % (mn, n.lineno, n.func.attr))
    scan(ctx, P, 'droop/**/*.py', 'actions-append-only', "record['actions'] is created once and only ever appended to (so an interrupted record is a prefix)",
         not bad, '; '.join(bad))
    # nothing in the package can swallow the interrupt: a KeyboardInterrupt raised anywhere during a count must reach the
    # driver.  Handlers that would catch it: bare `except:`, BaseException, KeyboardInterrupt (unless they re-raise as their
    # last statement); also contextlib.suppress and a `return`/`break`/`continue` inside a `finally`
    bad = []
    for mn, m in repo.modules.items():
        if mn in ('Droop',):
            continue
        for n in ast.walk(m.tree):
            if isinstance(n, ast.ExceptHandler):
                names = []
                if n.type is None:
                    names = ['<bare>']
                else:
                    for t in (n.type.elts if isinstance(n.type, ast.Tuple) else [n.type]):
                        names.append(norm_src(t).rsplit('.', 1)[-1])
                if any(x in ('<bare>', 'BaseException', 'KeyboardInterrupt') for x in names):
                    last = n.body[-1] if n.body else None
                    if not (isinstance(last, ast.Raise) and last.exc is None):
                        bad.append('%s:%d except %s' % (mn, n.lineno, ','.join(names)))
            if isinstance(n, ast.Try) and n.finalbody:
                for x in n.finalbody:
                    for y in ast.walk(x):
                        if isinstance(y, (ast.Return, ast.Break, ast.Continue)):
                            bad.append('%s:%d %s inside finally' % (mn, y.lineno, type(y).__name__.lower()))
            if isinstance(n, ast.Call) and norm_src(n.func).endswith('suppress'):
                bad.append('%s:%d contextlib.suppress' % (mn, n.lineno))
    scan(ctx, P, 'droop/**/*.py', 'interrupt-not-swallowed',
         'no handler in the package can swallow a KeyboardInterrupt (no bare except / BaseException / KeyboardInterrupt handler that '
         'does not re-raise, no return inside finally, no suppress): an interrupt raised anywhere during a count reaches the driver',
         not bad, '; '.join(bad))
    # determinism of count(): no clock, randomness, environment or I/O in the counting path
    bad = []
    for mn, m in repo.modules.items():
        if mn in ('Droop',):
            continue
        for n in ast.walk(m.tree):
            if isinstance(n, (ast.Import, ast.ImportFrom)):
                mods = [a.name for a in n.names] if isinstance(n, ast.Import) else [n.module or '']
                for x in mods:
                    if x.split('.')[0] in ('time', 'random', 'datetime', 'os', 'socket', 'threading', 'secrets', 'uuid'):
                        bad.append('%s imports %s' % (mn, x))
    scan(ctx, P + ['C20'], 'droop/**/*.py', 'deterministic', 'the package imports no clock, randomness, environment or threading module', not bad, '; '.join(bad))
    # CLI: a KeyboardInterrupt during the count leads to the renderers being called with intr=True
    f, src = _func_src(repo, 'Droop.main')
    flag = None
    renders = []
    if f is not None:
        for n in ast.walk(f.node):
            if isinstance(n, ast.ExceptHandler) and n.type is not None and 'KeyboardInterrupt' in norm_src(n.type):
                for x in ast.walk(n):
                    if isinstance(x, ast.Assign) and isinstance(x.value, ast.Constant) and x.value.value is True \
                            and len(x.targets) == 1 and isinstance(x.targets[0], ast.Name):
                        flag = x.targets[0].id
            if isinstance(n, ast.Call) and isinstance(n.func, ast.Attribute) and n.func.attr in ('report', 'dump', 'json') \
                    and isinstance(n.func.value, ast.Name):
                renders.append(n)
    if flag is None or {c.func.attr for c in renders} != {'report', 'dump', 'json'}:
        scan(ctx, P, 'Droop.main', 'cli-intr', 'the command-line driver catches KeyboardInterrupt around the count and passes the flag to report/dump/json',
             False, 'handler flag: %s; renderer calls: %s' % (flag, sorted(c.func.attr for c in renders)), shape=True)
    else:
        lacking = [c.func.attr for c in renders
                   if not any(isinstance(a, ast.Name) and a.id == flag for a in list(c.args) + [k.value for k in c.keywords])]
        scan(ctx, P, 'Droop.main', 'cli-intr', 'every rendering the command-line driver produces after a KeyboardInterrupt is told about it '
             '(the flag set in the handler is passed to each of report / dump / json)', not lacking, 'called without the flag: %s' % lacking)
    # record.report / dump fill the header on demand
    for q in ('droop.record.ElectionRecord.report', 'droop.record.ElectionRecord.dump'):
        f, src = _func_src(repo, q)
        okf = False
        if f is not None:
            first = [s_ for s_ in f.node.body if not (isinstance(s_, ast.Expr) and isinstance(s_.value, ast.Constant))]
            # the fill must precede the first read of a header key
            txt = [norm_src(s_) for s_ in first]
            idx_fill = next((i for i, t in enumerate(txt) if 'self._fill()' in t and 'not self.filled' in t), None)
            idx_read = next((i for i, t in enumerate(txt) if "self['" in t and "self['actions']" not in t and '_fill' not in t), None)
            okf = idx_fill is not None and (idx_read is None or idx_fill < idx_read)
        scan(ctx, P, q, 'header-on-demand', 'the record header is filled before any header key is read (renderable at every interruption point)', okf, shape=True)


def gen_c18_scans(ctx):
    repo = ctx.repo
    gen_fill_scan(ctx)
    P = ['C18']
    # keys read from actions / candidate states by the renderers are keys written by action() / as_dict / the rule hooks
    reads, writes = {}, set()
    for mn in ('droop.record', 'droop.rules.electionmethods', 'droop.rules.qpq', 'droop.rules.mpls', 'droop.candidate', 'droop.candidates'):
        m = repo.module(mn)
        for n in ast.walk(m.tree):
            if isinstance(n, ast.Subscript) and isinstance(n.slice, ast.Constant) and isinstance(n.slice.value, str):
                base = norm_src(n.value)
                key = n.slice.value
                if isinstance(n.ctx, ast.Store):
                    writes.add(key)
                elif base in ('A', 'action', 'cstate', 'cstate[cid]', "A['cstate'][cid]") or base.startswith('cstate['):
                    reads.setdefault(key, []).append('%s:%d' % (mn, n.lineno))
            if isinstance(n, ast.Call) and isinstance(n.func, ast.Name) and n.func.id == 'dict':
                for k in n.keywords:
                    if k.arg:
                        writes.add(k.arg)
    missing = {k: v for k, v in reads.items() if k not in writes}
    scan(ctx, P, 'droop/record.py + hooks', 'key-safety', 'every key the renderers read from an action or a candidate state is written by action()/as_dict()/the rule hooks',
         not missing, 'read but never written: %s' % missing)
    # the renderers never test a recorded number for truthiness: Guarded.__bool__ is exact while the comparisons of the
    # class are tolerant, so `not v` and `v == V0` disagree inside the guard band and a candidate could drop out of both
    # the "zero" and the "positive" listing of the report
    NUM_KEYS = {'vote', 'votes', 'quota', 'surplus', 'residual', 'nt_votes', 'kf', 'quotient'}
    truthy = []
    for mn in ('droop.record', 'droop.rules.electionmethods', 'droop.rules.qpq', 'droop.rules.mpls'):
        m = repo.module(mn)
        if m is None:
            continue

        def is_num(e):
            return isinstance(e, ast.Subscript) and isinstance(e.slice, ast.Constant) and e.slice.value in NUM_KEYS
        for n in ast.walk(m.tree):
            tests = []
            if isinstance(n, (ast.If, ast.IfExp, ast.While)):
                tests.append(n.test)
            if isinstance(n, ast.comprehension):
                tests += n.ifs
            if isinstance(n, ast.UnaryOp) and isinstance(n.op, ast.Not):
                tests.append(n.operand)
            if isinstance(n, ast.BoolOp):
                tests += n.values
            for t in tests:
                if is_num(t):
                    truthy.append('%s:%d %s' % (mn, t.lineno, norm_src(t)))
    scan(ctx, P, 'droop/record.py + hooks', 'no-truthiness-on-numbers',
         'the renderers compare recorded tallies with the arithmetic\'s own comparisons, never by truthiness (exact under guarded arithmetic)',
         not truthy, '; '.join(sorted(set(truthy))))
    # Election.count: 'end' is the last action; afterwards only the result lists are taken and postCheck runs
    f, _ = _func_src(repo, 'droop.election.Election.count')
    ok = False
    if f is not None:
        body = [norm_src(s_) for s_ in f.node.body if not (isinstance(s_, ast.Expr) and isinstance(s_.value, ast.Constant))]
        try:
            i_cnt = body.index('self.rule.count()')
            i_end = body.index("self.logAction('end', 'Count Complete')")
            tail = body[i_end + 1:]
            ok = i_cnt < i_end and tail == ['self.elected = self.C.elected()', 'self.defeated = self.C.defeated()',
                                            'self.withdrawn = self.C.withdrawn()', 'self.postCheck()']
        except ValueError:
            ok = False
    scan(ctx, P, 'droop.election.Election.count', 'end-last', "the 'end' action is logged after rule.count() and nothing but taking the result lists follows", ok, shape=True)
    # every rule's first state-bearing action is begin (mpls: count, after the first round)
    for mn in RULE_MODULES:
        f = repo.resolve(mn + '.Rule.count')
        first = None
        if f is not None:
            calls = []
            for n in ast.walk(f.node):
                if isinstance(n, ast.Call) and isinstance(n.func, ast.Attribute) and n.func.attr == 'logAction' and n.args and \
                        isinstance(n.args[0], ast.Constant):
                    calls.append((n.lineno, n.args[0].value))
            calls.sort()
            calls = [c for c in calls if c[1] != 'tie']
            first = calls[0][1] if calls else None
        want = 'count' if mn.endswith('mpls') else 'begin'
        scan(ctx, P, mn + '.Rule.count', 'begins-with-begin', "the first action logged by the rule is '%s'" % want, first == want, str(first), shape=True)
    # the JSON rendering only ever sees JSON-able values plus the arithmetic classes handled by the encoder
    f, src = _func_src(repo, 'droop.record.ElectionRecord.json')
    ok = f is not None and 'json_.dumps(self, cls=ValueEncoder, sort_keys=True, indent=2)' in src
    scan(ctx, P, 'droop.record.ElectionRecord.json', 'json-dumps', 'the JSON rendering is json.dumps of the record itself with the value encoder', ok, shape=True)
    # the dump writes one row per action
    f, src = _func_src(repo, 'droop.record.ElectionRecord.dump')
    ok = f is not None and "for A in self['actions']:" in src and "dumps.append('\\t'.join(r) + '\\n')" in src
    scan(ctx, P, 'droop.record.ElectionRecord.dump', 'row-per-action', 'the dump has exactly one row per recorded action', ok, shape=True)


# --------------------------------------------------------------------------------------------- C10 / C11
ACCUMULATORS = {'vote', 'exhausted', 'residual', 'tc', 'tx', 'va'}


def ballot_loops(fn):
    "for-loops / generator expressions whose iterable mentions E.ballots or E.ballotsEqual"
    out = []
    for n in ast.walk(fn.node):
        if isinstance(n, ast.For) and 'E.ballots' in norm_src(n.iter):
            out.append(n)
    return out


def gen_c10_scans(ctx):
    repo = ctx.repo
    P = ['C10']
    nloops = 0
    for mn in RULE_MODULES:
        m = repo.module(mn)
        bad = []
        for fn in [f for f in repo.all_functions() if f.module is m]:
            for loop in ballot_loops(fn):
                nloops += 1
                bvar = loop.target.id if isinstance(loop.target, ast.Name) else None
                for n in ast.walk(ast.Module(body=loop.body, type_ignores=[])):
                    if isinstance(n, ast.Assign):
                        for t in n.targets:
                            src = norm_src(t)
                            if isinstance(t, ast.Attribute) and not src.startswith(bvar + '.'):
                                bad.append('%s:%d plain assignment to %s inside a ballot sweep' % (mn, n.lineno, src))
                    if isinstance(n, ast.AugAssign) and isinstance(n.target, ast.Attribute):
                        src = norm_src(n.target)
                        if not src.startswith(bvar + '.') and (n.target.attr not in ACCUMULATORS or not isinstance(n.op, (ast.Add, ast.Sub))):
                            bad.append('%s:%d non-additive update of %s' % (mn, n.lineno, src))
                # a local that one iteration reads before (re)assigning it carries a value from ballot to ballot: the
                # result may then depend on the order of the ballot lines
                stores, loads = {}, {}
                inner_targets = set()
                for n in ast.walk(ast.Module(body=loop.body, type_ignores=[])):
                    if isinstance(n, (ast.For, ast.comprehension)):
                        inner_targets |= {x.id for x in ast.walk(n.target) if isinstance(x, ast.Name)}
                    if isinstance(n, (ast.FunctionDef, ast.Lambda)):
                        inner_targets |= {a.arg for a in n.args.args}
                    if isinstance(n, ast.Name):
                        d = stores if isinstance(n.ctx, ast.Store) else loads
                        pos = (n.lineno, n.col_offset)
                        d[n.id] = min(d.get(n.id, pos), pos)
                for name, first_store in stores.items():
                    if name == bvar or name in inner_targets:
                        continue
                    first_load = loads.get(name)
                    if first_load is not None and first_load[0] <= first_store[0] and not (first_load[0] == first_store[0] and first_load[1] > first_store[1]):
                        # (an augmented assignment `x += e` of a local counts: it reads x first)
                        bad.append('%s:%d local %s is carried from one ballot to the next inside a ballot sweep' % (mn, first_store[0], name))
                for n in ast.walk(ast.Module(body=loop.body, type_ignores=[])):
                    if isinstance(n, ast.AugAssign) and isinstance(n.target, ast.Name) and n.target.id != bvar \
                            and not isinstance(n.op, (ast.Add, ast.Sub)):
                        bad.append('%s:%d non-additive update of local %s inside a ballot sweep' % (mn, n.lineno, n.target.id))
        scan(ctx, P, mn, 'sweeps-commute',
             'inside every sweep over the ballots, state other than the ballot itself is updated only by += / -= on exact sums (so the order of ballot lines is irrelevant)',
             not bad, '; '.join(bad))
    scan(ctx, P, 'droop/rules/*.py', 'sweeps-found', 'ballot sweeps were found and examined (vacuity guard)', nloops >= 20, 'loops=%d' % nloops)
    # no rule reads a ballot's position, the number of ballot lines or the source line number
    bad = []
    for mn in RULE_MODULES + ['droop.election']:
        m = repo.module(mn)
        for n in ast.walk(m.tree):
            src = norm_src(n) if isinstance(n, (ast.Call, ast.Attribute, ast.Subscript)) else ''
            if isinstance(n, ast.Call) and isinstance(n.func, ast.Name) and n.func.id in ('enumerate', 'len') and \
                    n.args and re.search(r'\bballots(Equal)?\b', norm_src(n.args[0])):
                bad.append('%s:%d %s' % (mn, n.lineno, src[:50]))
            if isinstance(n, ast.Subscript) and re.search(r'\bE\.ballots(Equal)?$|self\.ballots(Equal)?$', norm_src(n.value)):
                bad.append('%s:%d %s' % (mn, n.lineno, src[:50]))
            if isinstance(n, ast.Attribute) and n.attr == 'line' and mn != 'droop.profile':
                bad.append('%s:%d .line' % (mn, n.lineno))
    scan(ctx, P, 'droop/rules/*.py', 'no-order-leak', 'no rule reads a ballot\'s position, the number of ballot lines or the source line number', not bad, '; '.join(bad))
    # re-weighting depends on the weight, never on the multiplier (splitting a multiplier cannot change a weight)
    bad = []
    for mn in RULE_MODULES:
        m = repo.module(mn)
        for n in ast.walk(m.tree):
            if isinstance(n, ast.Assign) and any(isinstance(t, ast.Attribute) and t.attr == 'weight' for t in n.targets):
                if 'multiplier' in norm_src(n.value):
                    bad.append('%s:%d %s' % (mn, n.lineno, norm_src(n)[:70]))
    scan(ctx, P, 'droop/rules/*.py', 'weight-independent-of-multiplier', 'a ballot\'s new weight never depends on its multiplier', not bad, '; '.join(bad))
    # the number of papers a line stands for only ever MULTIPLIES an (already rounded) per-paper value or is summed: it never
    # enters a division or another rounding operation, so m papers on one line and the same papers on several lines are credited alike
    bad = []
    for mn in RULE_MODULES:
        m = repo.module(mn)
        pm = {}
        for n in ast.walk(m.tree):
            for c in ast.iter_child_nodes(n):
                pm[id(c)] = n
        for n in ast.walk(m.tree):
            is_m = (isinstance(n, ast.Attribute) and n.attr == 'multiplier') or (isinstance(n, ast.Name) and n.id == 'multiplier')
            if not is_m or not isinstance(getattr(n, 'ctx', None), ast.Load):
                continue
            p, child = pm.get(id(n)), n
            while p is not None and not isinstance(p, ast.stmt):
                if isinstance(p, ast.BinOp) and isinstance(p.op, (ast.Div, ast.FloorDiv, ast.Mod, ast.Pow)):
                    bad.append('%s:%d %s' % (mn, n.lineno, norm_src(p)[:70]))
                    break
                if isinstance(p, ast.Call) and child is not p.func and isinstance(p.func, ast.Attribute) and \
                        p.func.attr in ('div', 'muldiv', 'mul', 'min', 'max'):
                    bad.append('%s:%d %s' % (mn, n.lineno, norm_src(p)[:70]))
                    break
                child, p = p, pm.get(id(p))
    scan(ctx, P, 'droop/rules/*.py', 'multiplier-only-multiplies',
         'the number of papers of a ballot line only multiplies per-paper values or is summed; it never enters a division or a rounding operation',
         not bad, '; '.join(bad))


def gen_c11_scans(ctx):
    repo = ctx.repo
    P = ['C11']
    # candidates are never ordered by id: sort keys are vote / ballot order / tie order only
    bad = []
    for mn in RULE_MODULES + ['droop.candidates', 'droop.election']:
        m = repo.module(mn)
        for n in ast.walk(m.tree):
            if isinstance(n, ast.Call) and isinstance(n.func, ast.Name) and n.func.id in ('sorted', 'min', 'max'):
                for k in n.keywords:
                    if k.arg == 'key' and 'cid' in norm_src(k.value):
                        bad.append('%s:%d %s' % (mn, n.lineno, norm_src(n)[:60]))
            if isinstance(n, ast.Compare) and any('.cid' in norm_src(x) for x in [n.left] + n.comparators) and \
                    any(isinstance(op, (ast.Lt, ast.Gt, ast.LtE, ast.GtE)) for op in n.ops):
                bad.append('%s:%d ordering comparison on cid' % (mn, n.lineno))
    scan(ctx, P, 'droop/rules/*.py', 'no-id-order', 'candidate ids are compared for equality only, never ordered', not bad, '; '.join(bad))
    # a collection of candidates that carries no declared order (a selection without order=, a comprehension over one, a set)
    # is in candidate-id order by accident of the implementation: taking its first k, its i-th or a slice of it would let the
    # numbering decide.  (Single-element pop() after a len == 1 test, membership, len, iteration over ALL of it are fine.)
    UNORDERED_SEL = {'hopeful', 'elected', 'defeated', 'pending', 'notpending', 'eligible', 'withdrawn', 'select'}
    bad = []
    for mn in RULE_MODULES:
        m = repo.module(mn)
        for fn in [f_ for f_ in repo.all_functions() if f_.module is m]:
            unordered = set()

            def is_unordered(e):
                if isinstance(e, ast.Call) and isinstance(e.func, ast.Attribute) and e.func.attr in UNORDERED_SEL:
                    kws = {k.arg for k in e.keywords}
                    return 'order' not in kws and len(e.args) < 2
                if isinstance(e, ast.Name):
                    return e.id in unordered
                if isinstance(e, (ast.ListComp, ast.GeneratorExp, ast.SetComp)):
                    return any(is_unordered(g.iter) for g in e.generators)
                if isinstance(e, ast.Call) and isinstance(e.func, ast.Name) and e.func.id in ('list', 'tuple', 'set', 'frozenset'):
                    return bool(e.args) and is_unordered(e.args[0])
                if isinstance(e, ast.BinOp) and isinstance(e.op, ast.Add):
                    return is_unordered(e.left) or is_unordered(e.right)
                if isinstance(e, ast.Subscript) and isinstance(e.slice, ast.Slice):
                    return is_unordered(e.value)
                return False
            for _ in range(3):
                for n in own_walk(fn.node):
                    if isinstance(n, ast.Assign) and len(n.targets) == 1 and isinstance(n.targets[0], ast.Name):
                        if is_unordered(n.value):
                            unordered.add(n.targets[0].id)
            for n in own_walk(fn.node):
                if isinstance(n, ast.Subscript) and is_unordered(n.value):
                    bad.append('%s:%d %s' % (mn, n.lineno, norm_src(n)[:60]))
                if isinstance(n, ast.Call) and isinstance(n.func, ast.Name) and n.func.id == 'next' and n.args and \
                        isinstance(n.args[0], ast.Call) and norm_src(n.args[0].func) == 'iter' and is_unordered(n.args[0].args[0]):
                    bad.append('%s:%d %s' % (mn, n.lineno, norm_src(n)[:60]))
    scan(ctx, P + ['C07'], 'droop/rules/*.py', 'unordered-never-indexed',
         'a collection of candidates without a declared order (selection without order=, comprehension over one) is never indexed or '
         'sliced: which candidates are taken is never decided by their numbering',
         not bad, '; '.join(bad))
    f, src = _func_src(repo, 'droop.candidate.Candidate.__init__')
    scan(ctx, P, 'droop.candidate.Candidate.__init__', 'withdrawn-state', "a withdrawn candidate starts in state 'withdrawn' (never hopeful)",
         f is not None and "self.state = 'withdrawn' if isWithdrawn else 'hopeful'" in src, shape=True)
    f, src = _func_src(repo, 'droop.profile.ElectionProfile.BallotLine.__init__')
    scan(ctx, P, 'droop.profile.ElectionProfile.BallotLine.__init__', 'strip-withdrawn', 'withdrawn candidates are removed from every rank when a ballot line is stored',
         f is not None and 'cid in profile.withdrawn' in src and 'rank.remove(cid)' in src, shape=True)


# --------------------------------------------------------------------------------------------- C03 statutory clauses
def gen_c03_scans(ctx):
    repo = ctx.repo
    P = ['C03']
    want = {
        'droop.rules.wigm': ('b.weight * surplus / high_candidate.vote', 'generic WIGM: weight times surplus over the tally, truncating each operation'),
        'droop.rules.wigm_prf': ('b.weight * surplus / high_candidate.vote', 'PRF B.3: weight times surplus, then divided by the total vote, truncating each'),
        'droop.rules.scotland': ("V.muldiv(b.weight, surplus, high_candidate.vote, round='down')", 'Scottish 48(3): A/B with one truncation'),
        'droop.rules.mpls': ('b.weight * surplus / high_candidate.vote', 'Minneapolis transfer value as implemented (golden files)'),
        'droop.rules.cfer': ('b.weight * surplus / c.vote', 'CfER (g)(2) as implemented (golden files)'),
    }
    for mn, (expr, what) in want.items():
        m = repo.module(mn)
        found = []
        for n in ast.walk(m.tree):
            if isinstance(n, ast.Assign) and any(isinstance(t, ast.Attribute) and t.attr == 'weight' and isinstance(t.value, ast.Name)
                                                 for t in n.targets):
                tn = [t.value.id for t in n.targets if isinstance(t, ast.Attribute) and t.attr == 'weight'][0]
                # the ballot variable is named first so that it is v0 whatever it is called
                found.append(alpha(ast.parse('(%s, %s)' % (tn, norm_src(n.value)), mode='eval').body))
        scan(ctx, ['C03', 'C06'], mn, 'transfer-value-formula', 'the transfer value is computed as the clause words it: %s' % what,
             found == [alpha('(b, %s)' % expr)], str(found), shape=True)
    f, src = _func_src(repo, 'droop.rules.meek_prf.Rule.count')
    ok = f is not None and "V.mul(b.weight, c.kf, round='up')" in src and "V.div(V.mul(c.kf, E.quota, round='up'), c.vote, round='up')" in src
    scan(ctx, P, 'droop.rules.meek_prf.Rule.count', 'round-up-placements', 'PRF Meek B.2.a / B.2.f: keep value and keep factor are rounded up', ok, shape=True)


# --------------------------------------------------------------------------------------------- C08
def gen_c08_scans(ctx):
    repo = ctx.repo
    P = ['C08']
    f = repo.resolve('droop.rules.meek.Rule.count.<locals>.iterate')
    ok = ok_stable = False
    if f is not None:
        for n in ast.walk(f.node):
            if isinstance(n, ast.If):
                t = norm_src(n.test)
                body = [norm_src(x) for x in n.body]
                if t == 'E.surplus <= self.omega' and body == ['return (IS_omega, None)']:
                    ok = True
                if t == 'E.surplus >= lastsurplus' and len(body) == 2 and body[0].startswith("E.log('Stable state detected") \
                        and body[1] == 'return (IS_stable, None)':
                    ok_stable = True
        rets = [norm_src(n.value) for n in ast.walk(f.node) if isinstance(n, ast.Return) and n.value is not None]
        only = set(rets) <= {'(IS_elected, None)', '(IS_omega, None)', '(IS_stable, None)', '(IS_batch, batch)'}
    else:
        only = False
    scan(ctx, P, 'droop.rules.meek.Rule.count.<locals>.iterate', 'exit-omega', "iterate() returns 'omega' only under the test surplus <= omega", ok, shape=True)
    scan(ctx, P, 'droop.rules.meek.Rule.count.<locals>.iterate', 'exit-stable', "iterate() returns 'stable' only when the surplus stopped decreasing, after logging it", ok_stable, shape=True)
    scan(ctx, P, 'droop.rules.meek.Rule.count.<locals>.iterate', 'exit-statuses', 'iterate() ends only as elected / omega / stable / batch', only, shape=True)
    f = repo.resolve('droop.rules.meek.Rule.count')
    ok2 = False
    if f is not None:
        for n in ast.walk(f.node):
            if isinstance(n, ast.While):
                body = n.body
                for i, st_ in enumerate(body):
                    if isinstance(st_, ast.If) and norm_src(st_.test) == 'iterationStatus == IS_elected' and \
                            [norm_src(x) for x in st_.body] == ['continue']:
                        # no defeat before this test inside the loop body
                        before = ast.Module(body=body[:i], type_ignores=[])
                        ok2 = not any(isinstance(c, ast.Call) and isinstance(c.func, ast.Attribute) and c.func.attr == 'defeat' for c in ast.walk(before))
    scan(ctx, P, 'droop.rules.meek.Rule.count', 'defeat-after-iteration', 'exclusions happen only after the iteration ended without electing anybody (omega / stable / batch)', ok2, shape=True)


# --------------------------------------------------------------------------------------------- C16 definite assignment, raise sites
ARRAY_CAPACITY = {'b': 127, 'B': 255, 'h': 32767, 'H': 65535, 'i': 32767, 'I': 65535, 'l': 2**31 - 1, 'L': 2**32 - 1,
                  'q': 2**63 - 1, 'Q': 2**64 - 1}     # what the C standard guarantees for each typecode


def array_capacity(fn):
    """every `array.array(<typecode>, ...)` in fn: for each nCand >= 1 for which the enclosing tests on profile.nCand
    let the call happen, the typecode chosen can hold nCand.  The typecode expression and those tests may mention only
    profile.nCand and integer literals; they are evaluated for nCand at and around every threshold (and far beyond the
    largest), which is exhaustive for such expressions."""
    if fn is None:
        return False, 'function not found'
    parents = {}
    for n in ast.walk(fn.node):
        for c in ast.iter_child_nodes(n):
            parents[id(c)] = n
    calls = [n for n in ast.walk(fn.node) if isinstance(n, ast.Call) and norm_src(n.func) == 'array.array']

    def only_ncand(e):
        for n in ast.walk(e):
            if isinstance(n, ast.Name) and n.id != 'profile':
                return False
            if isinstance(n, ast.Attribute) and not (isinstance(n.value, ast.Name) and n.value.id == 'profile' and n.attr == 'nCand'):
                return False
            if isinstance(n, (ast.Call, ast.Subscript, ast.Lambda)):
                return False
        return True
    problems = []
    for call in calls:
        if not call.args or not only_ncand(call.args[0]):
            problems.append('line %d: typecode expression is not a function of profile.nCand alone' % call.lineno)
            continue
        guards = []
        cur = call
        while id(cur) in parents:
            par = parents[id(cur)]
            if isinstance(par, ast.If) and only_ncand(par.test):
                inbody = any(any(cur is y for y in ast.walk(x)) for x in par.body)
                guards.append((par.test, inbody))
            if isinstance(par, ast.IfExp) and only_ncand(par.test) and cur is not par.test:
                guards.append((par.test, cur is par.body))
            cur = par
        consts = {0, 1}
        for e in [call.args[0]] + [g for g, _ in guards]:
            for n in ast.walk(e):
                if isinstance(n, ast.Constant) and isinstance(n.value, int) and not isinstance(n.value, bool):
                    consts.add(n.value)
                if isinstance(n, ast.BinOp) and isinstance(n.op, ast.Pow):
                    try:
                        consts.add(int(eval(compile(ast.Expression(n), '<c>', 'eval'), {'__builtins__': {}})))
                    except Exception:
                        pass
        pts = set()
        for c in consts:
            pts |= {c - 1, c, c + 1}
        pts |= {max(consts) * 4 + 7, 2**80}
        for n in sorted(x for x in pts if x >= 1):
            env = {'profile': type('P', (), {'nCand': n})(), '__builtins__': {}}
            try:
                live = all(bool(eval(compile(ast.Expression(g), '<g>', 'eval'), env)) == pol for g, pol in guards)
                if not live:
                    continue
                tc = eval(compile(ast.Expression(call.args[0]), '<t>', 'eval'), env)
            except Exception as e:
                problems.append('line %d: cannot evaluate for nCand=%d: %s' % (call.lineno, n, e))
                break
            cap = ARRAY_CAPACITY.get(tc)
            if cap is None or cap < n:
                problems.append("line %d: nCand=%d stores ids up to %d in typecode %r (guaranteed capacity %s)" % (call.lineno, n, n, tc, cap))
                break
    return not problems, '; '.join(problems) or '%d array.array call(s) analysed' % len(calls)


def gen_c16(ctx):
    from .defassign import check_function
    repo = ctx.repo
    P = ['C16']
    n = 0
    for f in repo.all_functions():
        if f.module.name not in ('droop.profile', 'droop.election', 'droop.options', 'droop.candidate', 'droop.candidates'):
            continue
        probs = check_function(f.node)
        n += 1
        ctx.col.add_done('DEF', P, f.qualname, 'definite-assignment',
                         'every local is assigned on every path (exception edges included) before it is read', not probs,
                         detail='; '.join('%s at line %d' % pr for pr in probs))
    scan(ctx, P, 'droop/profile.py', 'def-functions-found', 'functions were found and analysed (vacuity guard)', n >= 25, 'functions=%d' % n)
    # every raise in profile.py raises the package's profile error
    m = repo.module('droop.profile')
    bad = []
    for node in ast.walk(m.tree):
        if isinstance(node, ast.Raise) and node.exc is not None:
            src = norm_src(node.exc)
            if not src.startswith('ElectionProfileError('):
                bad.append('line %d: %s' % (node.lineno, src[:50]))
    scan(ctx, P, 'droop/profile.py', 'raise-sites', 'every raise statement of the parser raises ElectionProfileError', not bad, '; '.join(bad))
    # bltParse converts the iteration / conversion exceptions of the token loop
    f = repo.resolve('droop.profile.ElectionProfile.bltParse')
    handled = set()
    if f is not None:
        for node in ast.walk(f.node):
            if isinstance(node, ast.ExceptHandler) and node.type is not None:
                names = [norm_src(t) for t in (node.type.elts if isinstance(node.type, ast.Tuple) else [node.type])]
                if any(isinstance(x, ast.Raise) and norm_src(x.exc).startswith('ElectionProfileError(') for x in ast.walk(node)):
                    handled |= set(names)
    scan(ctx, P, 'droop.profile.ElectionProfile.bltParse', 'converts-stopiteration-valueerror',
         'running out of tokens (StopIteration) and numerals int() refuses (ValueError) become profile errors', {'StopIteration', 'ValueError'} <= handled, str(sorted(handled)), shape=True)
    # int() is applied only to tokens that matched a digits pattern
    fp = repo.resolve('droop.profile.ElectionProfile._bltParse')
    bad = []
    if fp is not None:
        src = ast.unparse(fp.node)
        for node in ast.walk(fp.node):
            if isinstance(node, ast.Call) and isinstance(node.func, ast.Name) and node.func.id == 'int':
                arg = norm_src(node.args[0])
                if not re.search(r'(digits|sdigits)\.match\(%s\)' % re.escape(arg), src):
                    bad.append('int(%s) at line %d' % (arg, node.lineno))
    scan(ctx, P, 'droop.profile.ElectionProfile._bltParse', 'int-after-digits', 'int() is applied only to tokens tested against the digits patterns', not bad, '; '.join(bad), shape=True)
    # the withdrawn marker is range-checked, the ranking array can hold every candidate id
    f2 = repo.resolve('droop.profile.ElectionProfile.BallotLine.__init__')
    src2 = ast.unparse(f2.node) if f2 else ''
    ok, detail = array_capacity(f2)
    meta = None
    m = re.search(r'nCand=(\d+)', detail or '')
    if not ok and m:
        # a ballot file with that many candidates and one ballot for the last of them (the id is pushed beyond 64 bits,
        # where every platform's widest typecode overflows): must be a profile error, never OverflowError
        n = max(int(m.group(1)), 2**64)
        meta = {'family': 'profile-text', 'input': '%d 1 1 %d 0 0' % (n, n)}
    scan(ctx, P + ['C15'], 'droop.profile.ElectionProfile.BallotLine.__init__', 'array-typecode',
         "wherever the ranking is stored in an array, the typecode's guaranteed capacity covers every candidate id 1..nCand "
         "(decided for every nCand: the choice is piecewise constant between the integer thresholds it compares with)",
         ok, detail, meta=meta)
    srcp = ast.unparse(fp.node) if fp else ''
    scan(ctx, P + ['C15'], 'droop.profile.ElectionProfile._bltParse', 'withdrawn-range', 'a -n withdrawn marker beyond the candidate count is rejected',
         'if wd > self.nCand:' in srcp and 'bad withdrawn candidate ID' in srcp, '', shape=True)


# --------------------------------------------------------------------------------------------- Lean lemmas behind the ghost counters
def gen_lean_card(ctx):
    """thorough tier: the two counting lemmas the ghost counters nH nE nD nW rest on (card_update, card_pos) are
    re-checked by Lean 4 + Mathlib from lean/CardUpdate.lean (no `sorry`, no axioms beyond Mathlib's).  In the quick tier
    they are listed as assumptions (A-ghost) that the thorough tier checks."""
    import subprocess
    root = os.path.dirname(os.path.dirname(os.path.abspath(__file__)))
    src = os.path.join(root, 'lean', 'CardUpdate.lean')
    P = ['C01', 'C09']
    if ctx.tier != 'thorough':
        ctx.assumptions.append('A-ghost: status counters follow card_update / card_pos (lean/CardUpdate.lean, re-checked by Lean in the thorough tier)')
        return
    ok, detail = False, ''
    try:
        txt = open(src).read()
        if 'sorry' in txt or 'axiom ' in txt:
            detail = 'the Lean source contains sorry / axiom'
        else:
            p = subprocess.run(['lean', src], capture_output=True, text=True, timeout=1500, cwd=os.path.dirname(src))
            out = (p.stdout or '') + (p.stderr or '')
            ok = p.returncode == 0 and 'error' not in out
            detail = out[-400:] if not ok else 'lean accepted card_update, card_pos'
    except Exception as e:     # noqa
        detail = 'lean could not be run: %s' % e
    ob = ctx.col.add_done('LEMMA', P, 'lean/CardUpdate.lean', 'card-update', 'writing one candidate\'s status changes each status count by '
                          '[new = n] - [old = n]; a member of a class makes its count positive (Lean 4 + Mathlib)', ok, detail=detail)
    if not ok:
        ob.status = 'unknown'      # a tool failure is never a violation of the property


def gen_lean_ledger(ctx):
    """thorough tier: the finite-sum facts the vote-ledger ghosts rest on (sum-update laws of T, G and sumB; empty-sum, all-zero,
    pointwise-equal lemmas; closing facts of the positional partial sums) are re-checked by Lean 4 + Mathlib from lean/Ledger.lean.
    In the quick tier they are listed as assumption A-ledger."""
    import subprocess
    root = os.path.dirname(os.path.dirname(os.path.abspath(__file__)))
    src = os.path.join(root, 'lean', 'Ledger.lean')
    P = ['C02', 'C06', 'C08']
    if ctx.tier != 'thorough':
        ctx.assumptions.append('A-ledger: the ledger ghosts follow tally_update / sumB_update / pile_move / pile_reweight; pile_empty, '
                               'sumB_all_zero, sumB_pointwise, piles_total, prefix_sum_closing (lean/Ledger.lean, re-checked by Lean in the thorough tier)')
        return
    ok, detail = False, ''
    try:
        txt = open(src).read()
        if 'sorry' in txt or 'axiom ' in txt:
            detail = 'the Lean source contains sorry / axiom'
        else:
            p = subprocess.run(['lean', src], capture_output=True, text=True, timeout=1800, cwd=os.path.dirname(src))
            out = (p.stdout or '') + (p.stderr or '')
            ok = p.returncode == 0 and 'error' not in out
            detail = out[-400:] if not ok else 'lean accepted the nine ledger lemmas'
    except Exception as e:     # noqa
        detail = 'lean could not be run: %s' % e
    ob = ctx.col.add_done('LEMMA', P, 'lean/Ledger.lean', 'ledger-sums',
                          'finite-sum facts behind the ledger ghosts: update laws of the total, the piles and sums over a batch; empty / all-zero / '
                          'pointwise-equal sums; closing facts of the positional partial sums (Lean 4 + Mathlib)', ok, detail=detail)
    if not ok:
        ob.status = 'unknown'      # a tool failure is never a violation of the property


# --------------------------------------------------------------------------------------------- model conformance of Candidates.select
def gen_select_conformance(ctx):
    """the abstract model of Candidates.select used by the rule-level proofs is checked against the real body:
    for every selector literal, an arbitrary object is in the list the body builds iff the model says so"""
    import z3
    from .symex import Exec
    from .state import State
    from .sv import SRef, SStr, SBool, SAbs, fresh_int, Unsupported
    from . import models
    repo = ctx.repo
    P = ['C09', 'C01', 'C07', 'C11']
    info = repo.resolve('droop.candidates.Candidates.select')
    if info is None:
        ctx.col.ungenerated(P, 'droop.candidates.Candidates.select', 'bind', 'function not found')
        return
    for what in ('all', 'eligible', 'pending', 'notpending', 'hopeful', 'elected', 'defeated', 'withdrawn'):
        try:
            ex = Exec(repo, ctx.specs, ctx.col)
            models.install(ex)
            ex.cur_func = info
            ex.cur_props = P
            st = State()
            a0 = fresh_int('alloc0')
            st.assume(a0 >= 1)
            st.alloc = a0
            st.ghost['alloc0'] = a0
            me = SRef(repo.resolve(models.CANDS), fresh_int('self'))
            st.assume(me.t >= 1)
            st.assume(me.t < a0)
            fr = ex.new_frame(st, info, None, info.owner, info.module)
            st.envs[fr.fid].update({'self': me, 'state': SStr(lit=what), 'order': SStr(lit='none'), 'reverse': SBool(False)})
            outs = ex.run_block(info.node.body, st, fr)
            rets = [o for o in outs if o.kind == 'ret']
            if len(rets) != 1 or len(outs) != 1:
                ctx.col.ungenerated(P, info.qualname, 'select[%s]' % what, 'body has %d outcomes' % len(outs))
                continue
            res = rets[0].val
            s1 = rets[0].st
            if isinstance(res, SRef) and res.cname == models.CANDS:
                from .l2 import iter_to_abs
                res = iter_to_abs(ex.C, res, s1, fr)
            if not isinstance(res, SAbs):
                ctx.col.ungenerated(P, info.qualname, 'select[%s]' % what, 'result is not a collection')
                continue
            t = fresh_int('t')
            want = models.select_pred(ex.C, s1, what)(t)
            ctx.col.add('POST', P, info.qualname, 'select[%s]:membership' % what,
                        "select('%s') returns exactly the candidates the model says (membership, for an arbitrary object)" % what,
                        ex.C.assumptions(s1), res.mem(t) == want)
        except Unsupported as e:
            ctx.col.ungenerated(P, info.qualname, 'select[%s]' % what, 'unsupported: %s' % e)
    # the eight wrappers pass their own literal
    for w in ('eligible', 'withdrawn', 'hopeful', 'elected', 'defeated', 'notpending', 'pending'):
        f = repo.resolve('droop.candidates.Candidates.' + w)
        ok = False
        if f is not None:
            body = [x for x in f.node.body if not (isinstance(x, ast.Expr) and isinstance(x.value, ast.Constant))]
            ok = len(body) == 1 and isinstance(body[0], ast.Return) and norm_src(body[0].value) == "self.select('%s', order, reverse)" % w
        scan(ctx, P, 'droop.candidates.Candidates.' + w, 'wrapper', "%s() is select('%s', order, reverse)" % (w, w), ok, shape=True)
    # the sort helpers are sorted() on the modelled keys
    for nm, key in (('byBallotOrder', 'lambda c: c.order'), ('byVote', 'lambda c: (c.vote, c.order)'), ('byTieOrder', 'lambda c: c.tieOrder')):
        f = repo.resolve('droop.candidates.Candidates.' + nm)
        ok = False
        if f is not None:
            body = [x for x in f.node.body if not (isinstance(x, ast.Expr) and isinstance(x.value, ast.Constant))]
            ok = len(body) == 1 and isinstance(body[0], ast.Return) and norm_src(body[0].value) == 'sorted(candidates, key=%s, reverse=reverse)' % key
        scan(ctx, P, 'droop.candidates.Candidates.' + nm, 'sort-key', '%s sorts by %s (stable sorted(): A-eval)' % (nm, key), ok, shape=True)


GENERATORS = {
    'C12': [gen_c12_scans],
    'C13': [gen_c13_scans],
    'C14': [gen_c14_scans],
    'C17': [gen_c17_scans, gen_c20_scans],
    'C09': [gen_c09_scans, gen_select_conformance, gen_lean_card],
    'C01': [gen_select_conformance, gen_lean_card],
    'C18': [gen_c18_scans, gen_c09_scans],
    'C16': [gen_c16],
    'C15': [gen_c16],
    'C19': [gen_c19_scans],
    'C10': [gen_c10_scans],
    'C11': [gen_c11_scans, gen_select_conformance, gen_rounds_protocol],
    'C03': [gen_c03_scans, gen_rounds_protocol],
    'C08': [gen_c08_scans, gen_c20_scans, gen_lean_ledger],
    'C07': [gen_c07_scans, gen_select_conformance],
    'C06': [gen_c09_scans, gen_c03_scans, gen_lean_ledger],
    'C02': [gen_c09_scans, gen_lean_ledger],
    'C20': [gen_c20_scans],
}
