"""
Property-specific generators beyond sidecar contracts: syntactic frame obligations (SCAN) read
off the current AST, and generic site obligations over the rule modules.
Each generator takes the RunCtx and adds obligations to ctx.col.
"""
import ast
import re

from .models import rational_wrapped

RULE_MODULES = ['droop.rules.wigm', 'droop.rules.wigm_prf', 'droop.rules.cfer', 'droop.rules.scotland',
                'droop.rules.mpls', 'droop.rules.meek', 'droop.rules.meek_prf', 'droop.rules.qpq']


def scan(ctx, props, where, anchor, desc, ok, detail=None):
    ctx.col.add_done('SCAN', props, where, anchor, desc, bool(ok), detail=detail)


def norm_src(node):
    return ast.unparse(node)


# --------------------------------------------------------------------------------------------- C12
def gen_c12_scans(ctx):
    repo = ctx.repo
    P = ['C12']
    fx = repo.resolve('droop.values.fixed.Fixed')
    scan(ctx, P, 'droop/values/fixed.py', 'alias-truediv',
         'Fixed.__truediv__ and Fixed.__div__ are aliases of the verified __floordiv__',
         fx is not None and fx.aliases.get('__truediv__') == '__floordiv__' and fx.aliases.get('__div__') == '__floordiv__',
         detail=str(fx.aliases if fx else None))
    # Fixed.min / Rational.min delegate to builtin min over values whose comparisons are exact (contracts)
    for q in ('droop.values.fixed.Fixed.min', 'droop.values.rational.Rational.min'):
        f = repo.resolve(q)
        body = [s for s in f.node.body if not (isinstance(s, ast.Expr) and isinstance(s.value, ast.Constant))] if f else []
        ok = len(body) == 1 and isinstance(body[0], ast.Return) and norm_src(body[0].value) == 'min(vals)'
        scan(ctx, P, q, 'min-delegates', 'min(vals) is the builtin minimum under the class comparisons', ok)
    gen_rational_wrappers(ctx, P)


def gen_rational_wrappers(ctx, P):
    repo = ctx.repo
    names = rational_wrapped(repo)
    need = set()
    for n in ('pos', 'neg', 'abs'):
        need.add('__%s__' % n)
    for n in ('add', 'sub', 'mul', 'truediv', 'floordiv'):
        need.add('__%s__' % n)
        need.add('__r%s__' % n)
    scan(ctx, P, 'droop/values/rational.py', 'wrapper-set',
         'every arithmetic operator of Fraction (and its reflected form) is re-wrapped to return Rational',
         names is not None and need <= names, detail='wrapped=%s' % sorted(names or []))
    m = repo.module('droop.values.rational')
    wm = m.functions.get('_wrap_method') if m else None
    ok = False
    if wm is not None:
        src = norm_src(ast.Module(body=[s for s in wm.node.body if not (isinstance(s, ast.Expr) and
                                                                       isinstance(s.value, ast.Constant))],
                                  type_ignores=[]))
        # closure: result is Rational(<Fraction method>(*args)); installed under the same name on Rational
        inner = [s for s in wm.node.body if isinstance(s, ast.FunctionDef)]
        if len(inner) == 1:
            ib = [s for s in inner[0].body if not (isinstance(s, ast.Expr) and isinstance(s.value, ast.Constant))]
            ok = (len(ib) == 1 and isinstance(ib[0], ast.Return) and
                  norm_src(ib[0].value) == 'Rational(fraction_method(*args))' and
                  'fraction_method = getattr(Fraction, method)' in src and
                  'setattr(Rational, method, %s)' % inner[0].name in src)
    scan(ctx, P, 'droop.values.rational._wrap_method', 'wrapper-shape',
         'a wrapper calls the Fraction method and converts the result to Rational (closure of the class)', ok)
    rat = repo.resolve('droop.values.rational.Rational')
    scan(ctx, P, 'droop/values/rational.py', 'subclass-of-fraction',
         'Rational derives from fractions.Fraction (A-lib: exact field arithmetic and ordering)',
         rat is not None and rat.bases == ['Fraction'] and m.imports.get('Fraction') == 'fractions.Fraction')


# --------------------------------------------------------------------------------------------- C13
def gen_c13_scans(ctx):
    repo = ctx.repo
    P = ['C13']
    g = repo.resolve('droop.values.guarded.Guarded')
    scan(ctx, P, 'droop/values/guarded.py', 'alias-truediv',
         'Guarded.__truediv__ and Guarded.__div__ are aliases of the verified __floordiv__',
         g is not None and g.aliases.get('__truediv__') == '__floordiv__' and g.aliases.get('__div__') == '__floordiv__')
    # rule code reaches V only through the interface the lemmas cover
    allowed = {'exact', 'quasi_exact', 'epsilon', 'name', 'mul', 'div', 'muldiv', 'min', 'report', 'info',
               'precision', 'display', 'guard', 'initialize', 'tag', 'helps'}
    used = {}
    for mn in RULE_MODULES + ['droop.election', 'droop.record', 'droop.rules.electionmethods', 'droop.candidate']:
        m = repo.module(mn)
        if m is None:
            continue
        for n in ast.walk(m.tree):
            if isinstance(n, ast.Attribute):
                b = n.value
                if (isinstance(b, ast.Name) and b.id == 'V') or (isinstance(b, ast.Attribute) and b.attr == 'V'
                                                                  and isinstance(b.value, ast.Name) and b.value.id in ('E', 'self')):
                    used.setdefault(n.attr, []).append('%s:%d' % (mn, n.lineno))
    bad = {k: v for k, v in used.items() if k not in allowed}
    scan(ctx, P, 'droop/rules/*.py', 'V-interface',
         'rules use the arithmetic class only through the interface covered by the guard-0 lemmas', not bad,
         detail='attributes used: %s ; outside interface: %s' % (sorted(used), bad))


# --------------------------------------------------------------------------------------------- C14
def gen_c14_scans(ctx):
    repo = ctx.repo
    P = ['C14']
    files = ['droop.record', 'droop.rules.electionmethods', 'droop.rules.qpq', 'droop.rules.mpls', 'droop.election']
    for mn in files:
        m = repo.module(mn)
        if m is None:
            scan(ctx, P, mn, 'render-via-str', 'module present', False)
            continue
        bad = []
        for n in ast.walk(m.tree):
            if isinstance(n, ast.Call) and isinstance(n.func, ast.Name) and n.func.id in ('float', 'round', 'format'):
                bad.append('%s() at line %d' % (n.func.id, n.lineno))
            if isinstance(n, ast.Call) and isinstance(n.func, ast.Attribute) and n.func.attr == 'format':
                bad.append('.format() at line %d' % n.lineno)
            if isinstance(n, ast.FormattedValue) and n.format_spec is not None:
                bad.append('f-string format spec at line %d' % n.lineno)
            if isinstance(n, ast.Constant) and isinstance(n.value, str) and re.search(r'%[-0-9.]*[feEgG]', n.value):
                bad.append('float format in literal at line %d' % n.lineno)
        scan(ctx, P, mn, 'render-via-str',
             'values reach text only through %s / str() / the JSON ValueEncoder (no float, round or format)', not bad,
             detail='; '.join(bad))
    # the JSON encoder prints values with str()
    rec = repo.module('droop.record')
    enc_ok = False
    if rec is not None:
        for n in ast.walk(rec.tree):
            if isinstance(n, ast.FunctionDef) and n.name == 'default':
                rets = [norm_src(r.value) for r in ast.walk(n) if isinstance(r, ast.Return) and r.value is not None]
                enc_ok = 'str(obj)' in rets and 'str(values.rational.Rational(obj))' in rets
    scan(ctx, P, 'droop.record.ElectionRecord.json', 'encoder-uses-str',
         'the JSON encoder renders Fixed/Guarded/Rational (and stray Fraction) values with str()', enc_ok)
    # %d is applied to integers only in the renderers
    bad = []
    if rec is not None:
        for n in ast.walk(rec.tree):
            if isinstance(n, ast.BinOp) and isinstance(n.op, ast.Mod) and isinstance(n.left, ast.Constant) and \
                    isinstance(n.left.value, str) and '%d' in n.left.value:
                src = norm_src(n.right)
                if not re.fullmatch(r"(self\['seats'\]|self\['nballots'\]|A\['round'\])", src):
                    bad.append('%s %% %s' % (n.left.value.strip(), src))
    scan(ctx, P, 'droop/record.py', 'percent-d-ints', '%d is applied to seats / ballots / round numbers only', not bad,
         detail='; '.join(bad))


GENERATORS = {
    'C12': [gen_c12_scans],
    'C13': [gen_c13_scans],
    'C14': [gen_c14_scans],
}
