"""
Builtins and spec-only vocabulary.
"""
import ast
import z3
from .sv import *      # noqa
from .state import Out
from .loader import ClassInfo
from .strings import strlen, str_of_int


class Builtins:
    def __init__(self, ex):
        self.ex = ex

    def call(self, fv, args, kwargs, st, fr, node):
        name = fv.name
        if name.startswith('specfn.'):
            return self.ex.ok(self.ex.C.call_specfn(name[7:], args, st, fr), st)
        m = getattr(self, 'b_' + name.replace('.', '_'), None)
        if m is None:
            hk = self.ex.hooks.get('builtin')
            if hk:
                r = hk(fv, args, kwargs, st, fr, node)
                if r is not None:
                    return r
            raise Unsupported('builtin %s' % name)
        if fv.bound is not None:
            return m(fv.bound, args, kwargs, st, fr)
        return m(args, kwargs, st, fr)

    # ------------------------------------------------------------------ arithmetic class interface
    def b_V_mul(self, args, kw, st, fr):
        from .arith import v_muldiv
        return v_muldiv(self.ex.C, 'mul', args, kw, st, fr)

    def b_V_div(self, args, kw, st, fr):
        from .arith import v_muldiv
        return v_muldiv(self.ex.C, 'div', args, kw, st, fr)

    def b_V_muldiv(self, args, kw, st, fr):
        from .arith import v_muldiv
        return v_muldiv(self.ex.C, 'muldiv', args, kw, st, fr)

    def b_actionlog_append(self, bound, args, kw, st, fr):
        """record['actions'].append(A): the ghost log grows by one action carrying A's tag and message; the action counts
        as complete when it carries the state snapshot, the totals, the quota and the rule's own entries"""
        from .models import ghost_get
        C = self.ex.C
        A = args[0]
        if not (isinstance(A, SRef) and A.cname == 'dict'):
            raise Unsupported('appending %r to the action list' % (A,))
        AT = C.AnyT
        tag, msg = C.dict_val(st, A, SStr(lit='tag')).t, C.dict_val(st, A, SStr(lit='msg')).t
        ok = z3.And(C.dict_has(st, A, SStr(lit='tag')), C.dict_has(st, A, SStr(lit='msg')), AT.is_s(tag), AT.is_s(msg))
        if not self.ex.sat(st, z3.Not(ok)):
            pass
        n = ghost_get(st, 'nlog').t
        st.ghost['g:nlog'] = SInt(n + 1)
        st.ghost['g:lasttag'] = SStr(t=z3.If(ok, AT.sv(tag), fresh_int('notag')))
        st.ghost['g:lastmsg'] = SStr(t=z3.If(ok, AT.sv(msg), fresh_int('nomsg')))
        islog = z3.And(ok, AT.sv(tag) == SStr(lit='log').t)
        full = z3.And(*[C.dict_has(st, A, SStr(lit=k)) for k in ('round', 'cstate', 'votes', 'quota')])
        hooked = ghost_get(st, 'hooked').t == A.t
        st.ghost['g:lastcomplete'] = SInt(z3.If(z3.And(ok, C.dict_has(st, A, SStr(lit='round')),
                                                       z3.Or(islog, z3.And(full, hooked))), 1, 0))
        return self.ex.ok(NONE, st)

    def b_rounds_append(self, bound, args, kw, st, fr):
        "E.rounds.append(C.copy()): the saved rounds are modelled by the snapshot functions (A-rounds); nothing else changes"
        return self.ex.ok(NONE, st)

    def b_V_report(self, args, kw, st, fr):
        return self.ex.ok(SStr(), st)

    def b_V_min(self, args, kw, st, fr):
        return self._minmax(True, args, kw, st, fr)

    def _frac(self, on):
        def f(args, kw, st, fr):
            import ast as _ast
            return self.ex.binop(getattr(_ast, on)(), args[0], args[1], st, fr)
        return f

    def b_frac___mul__(self, *a):
        return self._frac('Mult')(*a)

    def b_frac___truediv__(self, *a):
        return self._frac('Div')(*a)

    def b_frac___add__(self, *a):
        return self._frac('Add')(*a)

    def b_frac___sub__(self, *a):
        return self._frac('Sub')(*a)

    def _endswith(self, sid_term, lit):
        from .tokens import ends_with
        return ends_with(sid_term, SStr(lit=lit).t)

    def b_any_endswith(self, bound, args, kw, st, fr):
        A = self.ex.C.AnyT
        suf = args[0]
        if suf.lit is None:
            raise Unsupported('endswith with symbolic suffix')
        # a non-string here is an AttributeError in CPython: outside A-exc (sorts trusted)
        return self.ex.ok(SBool(self._endswith(A.sv(bound.t), suf.lit)), st)

    def _str_class_test(name):
        "s.isdigit() and friends: evaluated on literals; otherwise an unconstrained truth value (over-approximation: A-str)"
        def m(self, bound, args, kw, st, fr):
            if bound.lit is not None:
                return self.ex.ok(SBool(getattr(bound.lit, name)()), st)
            return self.ex.ok(SBool(fresh_bool(name)), st)
        return m
    for _n in ('isdigit', 'isdecimal', 'isnumeric', 'isalpha', 'isalnum', 'isspace', 'isidentifier'):
        locals()['b_str_' + _n] = _str_class_test(_n)
    del _n

    def b_str_endswith(self, bound, args, kw, st, fr):
        suf = args[0]
        if bound.lit is not None and suf.lit is not None:
            return self.ex.ok(SBool(bound.lit.endswith(suf.lit)), st)
        if suf.lit is None:
            raise Unsupported('endswith with symbolic suffix')
        return self.ex.ok(SBool(self._endswith(bound.t, suf.lit)), st)

    def b_str_find(self, bound, args, kw, st, fr):
        "s.find(literal): concrete for literals, otherwise an uninterpreted position >= -1 (a function of both texts)"
        sub = args[0]
        if len(args) != 1 or not isinstance(sub, SStr):
            raise Unsupported('str.find arguments')
        if bound.lit is not None and sub.lit is not None:
            return self.ex.ok(SInt(bound.lit.find(sub.lit)), st)
        from .strings import str_find
        r = str_find(bound.t, sub.t)
        st.assume(r >= -1)
        return self.ex.ok(SInt(r), st)

    def b_str_startswith(self, bound, args, kw, st, fr):
        from .tokens import starts_with
        pre = args[0]
        if bound.lit is not None and pre.lit is not None:
            return self.ex.ok(SBool(bound.lit.startswith(pre.lit)), st)
        if pre.lit is None:
            raise Unsupported('startswith with symbolic prefix')
        return self.ex.ok(SBool(starts_with(bound.t, pre.t)), st)

    # ---- dictionaries / option values
    def b_dict_get(self, bound, args, kw, st, fr):
        C = self.ex.C
        k = args[0]
        d = args[1] if len(args) > 1 else NONE
        v = z3.If(C.dict_has(st, bound, k), C.dict_val(st, bound, k).t, C.to_any(d).t)
        return self.ex.ok(SAny(v), st)

    def b_dict_setdefault(self, bound, args, kw, st, fr):
        C = self.ex.C
        k = args[0]
        d = args[1] if len(args) > 1 else NONE
        has = C.dict_has(st, bound, k)
        cur = C.dict_val(st, bound, k).t
        new = z3.If(has, cur, C.to_any(d).t)
        C.dict_store(st, bound, k, SAny(new))
        return self.ex.ok(SAny(new), st)

    def b_dict_copy(self, bound, args, kw, st, fr):
        C = self.ex.C
        has, val = C.dict_arrays(st)
        d = C.new_dict(st)
        has, val = C.dict_arrays(st)
        st.heap[('dict', 'has')] = z3.Store(has, d.t, z3.Select(has, bound.t))
        st.heap[('dict', 'val')] = z3.Store(val, d.t, z3.Select(val, bound.t))
        return self.ex.ok(d, st)

    def b_dict_update(self, bound, args, kw, st, fr):
        C = self.ex.C
        o = args[0]
        if not (isinstance(o, SRef) and o.cname == 'dict'):
            raise Unsupported('dict.update with %r' % (o,))
        has, val = C.dict_arrays(st)
        k = z3.Const('k!upd', C.AnyT)
        h1, h2 = z3.Select(has, bound.t), z3.Select(has, o.t)
        v1, v2 = z3.Select(val, bound.t), z3.Select(val, o.t)
        # pointwise array combinators (decided by z3's array theory; no lambda, no quantifier)
        bb = z3.Bool('b!m')
        nh = z3.Map(z3.Or(bb, z3.Bool('c!m')).decl(), h1, h2)
        nv = z3.Map(z3.If(bb, k, k).decl(), h2, v2, v1)
        st.heap[('dict', 'has')] = z3.Store(has, bound.t, nh)
        st.heap[('dict', 'val')] = z3.Store(val, bound.t, nv)
        return self.ex.ok(NONE, st)

    def b_dict_keys(self, bound, args, kw, st, fr):
        "the key view as an abstract duplicate-free collection of Any values (membership = the has-row)"
        from .l2 import mk_abs
        C = self.ex.C
        has, _ = C.dict_arrays(st)
        row = z3.Select(has, bound.t)
        n = fresh_int('nkeys')
        st.assume(n >= 0)
        L = mk_abs(C, st, 'any', lambda t: z3.Select(row, t), n, base='keys', distinct=True, register=False)
        return self.ex.ok(L, st)

    def b_dict_items(self, bound, args, kw, st, fr):
        "items view: iterated as (key, value) pairs; represented by the key collection with a pairing function"
        C = self.ex.C
        outs = self.b_dict_keys(bound, args, kw, st, fr)
        L = outs[0].val
        _, val = C.dict_arrays(st)
        vrow = z3.Select(val, bound.t)
        L.pair_of = lambda t: SAny(z3.Select(vrow, t))
        return outs

    def b_re_match(self, args, kw, st, fr):
        "re.match(r'\\d+$', s)  (the only patterns droop uses: digits, optionally signed)"
        from .anyval import is_digits
        pat, s = args
        if pat.lit not in (r'\d+$', r'-?\d+$'):
            raise Unsupported('regular expression %r' % pat.lit)
        a = self.ex.C.to_any(s)
        A = self.ex.C.AnyT
        if pat.lit == r'\d+$':
            return self.ex.ok(SBool(z3.And(A.is_s(a.t), is_digits(A.sv(a.t)))), st)
        from .tokens import is_sdigits
        return self.ex.ok(SBool(z3.And(A.is_s(a.t), is_sdigits(A.sv(a.t)))), st)

    def b_spec_dhas(self, args, kw, st, fr):
        return self.ex.ok(SBool(self.ex.C.dict_has(st, args[0], args[1])), st)

    def b_spec_dval(self, args, kw, st, fr):
        return self.ex.ok(self.ex.C.dict_val(st, args[0], args[1]), st)

    def b_spec_any_none(self, args, kw, st, fr):
        return self.ex.ok(SAny(self.ex.C.AnyT.none), st)

    def b_spec_any_of(self, args, kw, st, fr):
        return self.ex.ok(self.ex.C.to_any(args[0]), st)

    def b_spec_any_eq(self, args, kw, st, fr):
        return self.ex.ok(SBool(self.ex.C.any_eq(args[0], args[1])), st)

    def b_spec_returned_class(self, args, kw, st, fr):
        r = self.ex.spec_result
        return self.ex.ok(SBool(isinstance(r, SClass) and r.info.name == args[0].lit), st)

    def b_spec_any_same(self, args, kw, st, fr):
        "structural identity of two option values (no True == 1 coercion)"
        return self.ex.ok(SBool(self.ex.C.to_any(args[0]).t == self.ex.C.to_any(args[1]).t), st)

    def b_spec_any_is_none(self, args, kw, st, fr):
        return self.ex.ok(SBool(self.ex.C.to_any(args[0]).t == self.ex.C.AnyT.none), st)

    def b_spec_any_is_int(self, args, kw, st, fr):
        A = self.ex.C.AnyT
        return self.ex.ok(SBool(A.is_i(self.ex.C.to_any(args[0]).t)), st)

    def b_spec_any_int_value(self, args, kw, st, fr):
        A = self.ex.C.AnyT
        return self.ex.ok(SInt(A.iv(self.ex.C.to_any(args[0]).t)), st)

    def b_spec_distinct_refs(self, args, kw, st, fr):
        return self.ex.ok(SBool(z3.Distinct(*[a.t for a in args])), st)

    def b_spec_is_digit_string(self, args, kw, st, fr):
        from .anyval import is_digits
        if isinstance(args[0], (SInt, SBool, SNone)):
            return self.ex.ok(SBool(False), st)
        if isinstance(args[0], SStr) and args[0].lit is not None:
            import re as _re
            return self.ex.ok(SBool(bool(_re.match(r'\d+$', args[0].lit))), st)
        A = self.ex.C.AnyT
        a = self.ex.C.to_any(args[0])
        return self.ex.ok(SBool(z3.And(A.is_s(a.t), is_digits(A.sv(a.t)))), st)

    def b_spec_int_accepts(self, args, kw, st, fr):
        from .anyval import int_ok
        if isinstance(args[0], (SInt, SBool)):
            return self.ex.ok(SBool(True), st)
        A = self.ex.C.AnyT
        a = self.ex.C.to_any(args[0])
        return self.ex.ok(SBool(z3.And(A.is_s(a.t), int_ok(A.sv(a.t)))), st)

    def b_spec_norm_any(self, args, kw, st, fr):
        from .anyval import is_digits, int_of_str
        A = self.ex.C.AnyT
        if isinstance(args[0], SStr) and args[0].lit is not None:
            import re as _re
            lit = args[0].lit
            if _re.match(r'\d+$', lit) and len(lit) < 4300:
                return self.ex.ok(SAny(A.i(z3.IntVal(int(lit)))), st)
            if not _re.match(r'\d+$', lit):
                return self.ex.ok(self.ex.C.to_any(args[0]), st)
        a = self.ex.C.to_any(args[0])
        return self.ex.ok(SAny(z3.If(z3.And(A.is_s(a.t), is_digits(A.sv(a.t))), A.i(int_of_str(A.sv(a.t))), a.t)), st)

    def b_spec_dict_int_values_between(self, args, kw, st, fr):
        d, lo, hi = args
        C = self.ex.C
        has, val = C.dict_arrays(st)
        k = z3.Const('k!dv', C.AnyT)
        v = z3.Select(z3.Select(val, d.t), k)
        body = z3.Implies(z3.Select(z3.Select(has, d.t), k), z3.And(C.AnyT.is_i(v), C.AnyT.iv(v) >= lo.t, C.AnyT.iv(v) <= hi.t))
        return self.ex.ok(SBool(z3.ForAll([k], body)), st)

    def b_spec_int_value_of(self, args, kw, st, fr):
        from .anyval import int_of_str
        a = args[0]
        if isinstance(a, SInt):
            return self.ex.ok(a, st)
        if isinstance(a, SStr) and a.lit is not None and a.lit.isdigit():
            return self.ex.ok(SInt(int(a.lit)), st)
        return self.ex.ok(SInt(int_of_str(a.t)), st)

    def b_spec_old_dict(self, args, kw, st, fr):
        pre = self.ex.spec_pre or st
        has, val = self.ex.C.dict_arrays(pre)
        d = args[0]
        v = SSpecial('dictsnap')
        v.has, v.val = z3.Select(has, d.t), z3.Select(val, d.t)
        return self.ex.ok(v, st)

    def b_spec_dhas_in(self, args, kw, st, fr):
        snap, k = args
        return self.ex.ok(SBool(z3.Select(snap.has, self.ex.C.to_any(k).t)), st)

    def b_spec_dval_in(self, args, kw, st, fr):
        snap, k = args
        return self.ex.ok(SAny(z3.Select(snap.val, self.ex.C.to_any(k).t)), st)

    def b_spec_dict_same(self, args, kw, st, fr):
        d, snap = args
        has, val = self.ex.C.dict_arrays(st)
        h, v = z3.Select(has, d.t), z3.Select(val, d.t)
        return self.ex.ok(SBool(z3.And(h == snap.has, v == snap.val)), st)

    def b_spec_dict_is(self, args, kw, st, fr):
        "dict_is(d, snapshot, key, value): d == snapshot with key bound to value (as arrays: no quantifier)"
        d, snap, key, value = args
        has, val = self.ex.C.dict_arrays(st)
        kt = self.ex.C.to_any(key).t
        vt = self.ex.C.to_any(value).t
        h, v = z3.Select(has, d.t), z3.Select(val, d.t)
        return self.ex.ok(SBool(z3.And(h == z3.Store(snap.has, kt, z3.BoolVal(True)), v == z3.Store(snap.val, kt, vt))), st)

    def b_spec_dref(self, args, kw, st, fr):
        "dref(d, key): the dictionary stored under key in d (the value is an object reference)"
        C = self.ex.C
        d, k = args
        v = C.dict_val(st, d, k).t
        return self.ex.ok(SRef('dict', C.AnyT.ov(v)), st)

    def b_spec_dict_has_ref(self, args, kw, st, fr):
        "dict_has_ref(d, key): key is present and bound to an object"
        C = self.ex.C
        d, k = args
        return self.ex.ok(SBool(z3.And(C.dict_has(st, d, k), C.AnyT.is_o(C.dict_val(st, d, k).t))), st)

    def b_spec_dict_copy_of(self, args, kw, st, fr):
        "dict_copy_of(d, e): d has exactly e's keys and values (in the current state)"
        C = self.ex.C
        d, e = args
        has, val = C.dict_arrays(st)
        return self.ex.ok(SBool(z3.And(z3.Select(has, d.t) == z3.Select(has, e.t),
                                       z3.Select(val, d.t) == z3.Select(val, e.t))), st)

    def b_spec_any_is_str(self, args, kw, st, fr):
        C = self.ex.C
        a = C.to_any(args[0])
        lit = args[1]
        return self.ex.ok(SBool(a.t == C.to_any(lit).t), st)

    def b_spec_str_has(self, args, kw, st, fr):
        "str_has(s, literal): literal occurs in s  (s.find(literal) >= 0)"
        a, b = args
        if a.lit is not None and b.lit is not None:
            return self.ex.ok(SBool(b.lit in a.lit), st)
        from .strings import str_find
        return self.ex.ok(SBool(str_find(a.t, b.t) >= 0), st)

    def b_spec_visited(self, args, kw, st, fr):
        "visited(x) inside a @loops block of a for loop: x is one of the elements already iterated over"
        f = st.envs.get(fr.fid, {}).get('__visited__')
        cur = fr
        while f is None and cur is not None and cur.parent_fid is not None:
            cur = self.ex.frames.get(cur.parent_fid)
            f = st.envs.get(cur.fid, {}).get('__visited__') if cur is not None else None
        if f is None:
            raise Unsupported('visited() outside a for-loop invariant')
        x = args[0]
        return self.ex.ok(SBool(f.fn(x.t)), st)

    def b_spec_snap_vote(self, args, kw, st, fr):
        "snap_vote(n, c): the tally of candidate c in the copy of the candidates saved when round n+1 began (E.rounds[n])"
        from .models import snapvote_fn
        n, c = args
        return self.ex.ok(SVal(snapvote_fn(self.ex)(n.t, c.t)), st)

    def b_spec_any_mem(self, args, kw, st, fr):
        L, x = args
        return self.ex.ok(SBool(L.mem(self.ex.C.to_any(x).t)), st)

    # ---- election model vocabulary
    def b_spec_ghost(self, args, kw, st, fr):
        from .models import ghost_get
        return self.ex.ok(ghost_get(st, args[0].lit), st)

    # ---- vote ledger (ghosts T and G: models.py)
    def b_spec_ledger_on(self, args, kw, st, fr):
        from .models import ledger_on
        return self.ex.ok(SBool(ledger_on(self.ex)), st)

    def b_spec_ghost_at(self, args, kw, st, fr):
        "ghost_at('G', c): the ghost array at object c (an integer term or a reference)"
        from .models import ghost_get
        c = args[1].inner if isinstance(args[1], SOpt) else args[1]
        return self.ex.ok(SVal(z3.Select(ghost_get(st, args[0].lit).t, c.t)), st)

    def b_spec_top_ref(self, args, kw, st, fr):
        "top_ref(b): the object id of the candidate ballot b stands with (0 when exhausted)"
        from .models import top_of
        self.ex.election_facts(st)
        return self.ex.ok(SInt(top_of(self.ex.C, st, args[0].t)), st)

    def b_spec_ballot_value(self, args, kw, st, fr):
        from .models import ballot_value
        return self.ex.ok(SVal(ballot_value(self.ex.C, st, args[0].t)), st)

    def b_spec_ghost_moved(self, args, kw, st, fr):
        "ghost_moved('G', frm, to, amt): the ghost array is its pre-state value with amt moved from index frm to index to"
        from .models import ghost_get, arr_move
        pre = self.ex.spec_pre
        G1 = ghost_get(st, args[0].lit).t
        G0 = ghost_get(pre, args[0].lit).t if pre is not None else G1
        moved = arr_move(G0, args[1].t, args[2].t, args[3].t)
        if len(args) > 4:       # ghost_moved(..., when): unchanged unless `when`
            moved = z3.If(args[4].t, moved, G0)
        return self.ex.ok(SBool(G1 == moved), st)

    def b_spec_no_ballot_at(self, args, kw, st, fr):
        "no_ballot_at(c): no ballot of the election stands with candidate c"
        from .models import top_of, isBallot
        b = z3.Int('b!nb')
        c = args[0].inner if isinstance(args[0], SOpt) else args[0]
        return self.ex.ok(SBool(z3.ForAll([b], z3.Implies(isBallot(b), top_of(self.ex.C, st, b) != c.t))), st)

    def b_spec_val_times_int(self, args, kw, st, fr):
        "val_times_int(v, k): the value v times the integer k (exact in every arithmetic)"
        v, k = args
        if self.ex.instance == 'real':
            return self.ex.ok(SVal(v.t * z3.ToReal(k.t)), st)
        return self.ex.ok(SVal(v.t * k.t), st)

    def b_spec_in_election(self, args, kw, st, fr):
        from .models import inC
        self.ex.election_facts(st)
        return self.ex.ok(SBool(inC(args[0].t)), st)

    def b_spec_logged_now(self, args, kw, st, fr):
        from .models import ghost_get, msg_subject, CAND
        tag, c = args
        name = self.ex.C.read_field(st, c, 'name')
        f = z3.And(ghost_get(st, 'lasttag').t == tag.t, msg_subject(ghost_get(st, 'lastmsg').t) == name.t)
        return self.ex.ok(SBool(f), st)

    def b_spec_msg_names(self, args, kw, st, fr):
        from .models import msg_subject
        m, c = args
        name = self.ex.C.read_field(st, c, 'name')
        return self.ex.ok(SBool(msg_subject(m.t) == name.t), st)

    def b_spec_seq_len(self, args, kw, st, fr):
        from .models import seqlen
        st.assume(seqlen(args[0].t) >= 0)
        return self.ex.ok(SInt(seqlen(args[0].t)), st)

    def b_spec_seq_at(self, args, kw, st, fr):
        from .models import seqelem
        return self.ex.ok(SInt(seqelem(args[0].t, args[1].t)), st)

    def b_spec_some(self, args, kw, st, fr):
        v = args[0]
        return self.ex.ok(v.inner if isinstance(v, SOpt) else v, st)

    def b_spec_cand_by_cid(self, args, kw, st, fr):
        from .models import byCid, CAND
        k = args[0]
        if isinstance(k, SOpt):
            k = k.inner
        self.ex.election_facts(st)
        self.ex.cid_facts(st, k.t)
        st.note_ref(CAND, byCid(k.t))
        return self.ex.ok(SRef(self.ex.repo.resolve(CAND), byCid(k.t)), st)

    def b_spec_validcid(self, args, kw, st, fr):
        from .models import validcid
        k = args[0]
        if isinstance(k, SOpt):
            k = k.inner
        return self.ex.ok(SBool(validcid(k.t)), st)

    def b_spec_is_the_election(self, args, kw, st, fr):
        from .models import THE_E
        self.ex.election_facts(st)
        return self.ex.ok(SBool(args[0].t == THE_E), st)

    def b_spec_is_ballot(self, args, kw, st, fr):
        from .models import isBallot
        self.ex.election_facts(st)
        return self.ex.ok(SBool(isBallot(args[0].t)), st)

    def b_spec_scale_S(self, args, kw, st, fr):
        from .arith import SCALE, scale_facts
        scale_facts(st, self.ex)
        return self.ex.ok(SInt(SCALE), st)

    def b_spec_units(self, args, kw, st, fr):
        "stored units of a V value (scaled instances)"
        return self.ex.ok(SInt(args[0].t), st)

    def b_spec_whole(self, args, kw, st, fr):
        "whole(m): the integer k with m == V(k)  (defined when is_whole(m))"
        from .arith import SCALE, scale_facts
        from .models import whole_of, whole_of_r
        m = args[0].t
        return self.ex.ok(SInt(whole_of_r(m) if z3.is_real(m) else whole_of(m)), st)

    def b_spec_is_whole(self, args, kw, st, fr):
        from .arith import SCALE, scale_facts
        m = args[0].t
        k = self.b_spec_whole(args, kw, st, fr)[0].val.t
        if self.ex.instance == 'real':
            return self.ex.ok(SBool(z3.And(m == z3.ToReal(k), k >= 1)), st)
        scale_facts(st, self.ex)
        return self.ex.ok(SBool(z3.And(m == k * SCALE, k >= 1)), st)

    def b_spec_times_whole(self, args, kw, st, fr):
        w, m = args
        k = self.b_spec_whole([m], kw, st, fr)[0].val.t
        if self.ex.instance == 'real':
            return self.ex.ok(SVal(w.t * z3.ToReal(k)), st)
        return self.ex.ok(SVal(w.t * k), st)

    def b_spec_exact_arith(self, args, kw, st, fr):
        return self.ex.ok(SBool(self.ex.instance in ('guarded', 'real')), st)

    def b_spec_instance_is(self, args, kw, st, fr):
        return self.ex.ok(SBool(self.ex.instance == args[0].lit), st)

    def b_spec_V_of_int(self, args, kw, st, fr):
        from .arith import lift
        return self.ex.ok(SVal(lift(self.ex.C, args[0], st)), st)

    def b_spec_field_updated(self, args, kw, st, fr):
        "field_updated(Class, 'f', obj, newvalue): post array == store(pre array, obj, newvalue)"
        cls_, fld, obj, new = args
        pre = self.ex.spec_pre
        cq = cls_.info.qualname
        k = self.ex.C.field_kind(cq, fld.lit)
        post_a = self.ex.C.heap_array(st, cq, fld.lit, k)
        pre_a = self.ex.C.heap_array(pre, cq, fld.lit, k) if pre is not None else post_a
        if isinstance(obj, SOpt):
            obj = obj.inner
        return self.ex.ok(SBool(post_a == z3.Store(pre_a, obj.t, self.ex.C.unwrap(k, new))), st)

    def b_spec_field_unchanged(self, args, kw, st, fr):
        cls_, fld = args
        pre = self.ex.spec_pre
        cq = cls_.info.qualname
        k = self.ex.C.field_kind(cq, fld.lit)
        post_a = self.ex.C.heap_array(st, cq, fld.lit, k)
        pre_a = self.ex.C.heap_array(pre, cq, fld.lit, k) if pre is not None else post_a
        return self.ex.ok(SBool(post_a == pre_a), st)

    def b_spec_mem_opt(self, args, kw, st, fr):
        "membership in a possibly empty concrete list / tuple or an abstract list"
        L, x = args
        if isinstance(L, (STuple, SList, SSet)):
            items = L.items if not isinstance(L, SList) else st.lists[L.lid]
            if not items:
                return self.ex.ok(SBool(False), st)
            return self.ex.C.contains(L, x, st, fr)
        return self.ex.ok(SBool(self.ex.C.abs_mem(L, x, st)), st)

    def b_spec_length_opt(self, args, kw, st, fr):
        return self.b_len(args, kw, st, fr)

    def b_spec_slack0(self, args, kw, st, fr):
        return self.ex.ok(SInt(0), st)

    def b_spec_mem(self, args, kw, st, fr):
        L, x = args
        return self.ex.ok(SBool(self.ex.C.abs_mem(L, x, st)), st)

    def b_spec_length(self, args, kw, st, fr):
        return self.b_len(args, kw, st, fr)

    def b_abs_pop(self, bound, args, kw, st, fr):
        "list.pop() on an abstract list: returns the last element (the list is not used afterwards: SCAN)"
        ex = self.ex
        L = bound

        def ok(s):
            idx = L.length - 1
            e = L.elem(idx)
            s.assume(L.mem(e))
            for f in L.facts:
                s.assume(f(e))
            v = ex.C.wrap(L.ek, e)
            if isinstance(v, SRef):
                s.note_ref(v.cname, e)
            return ex.ok(v, s)
        return ex.split(L.length >= 1, st, ok, lambda s: ex.exc('IndexError', s))

    def b_spec_floor_real(self, args, kw, st, fr):
        "floor of a real-valued spec expression, as an Int"
        x = args[0].t
        key = ('floor', x.get_id())
        ent = st.ghost.get(key)
        q = ent[0] if (ent is not None and ent[1].eq(x)) else None
        if q is None:
            q = fresh_int('floor')
            st.ghost[key] = (q, x)
            st.assume(z3.And(z3.ToReal(q) <= x, x < z3.ToReal(q) + 1))
            if self.ex.spec_pre is not None:
                self.ex.spec_pre.assume(z3.And(z3.ToReal(q) <= x, x < z3.ToReal(q) + 1))
        return self.ex.ok(SInt(q), st)

    def b_spec_to_real(self, args, kw, st, fr):
        v = args[0]
        return self.ex.ok(SVal(z3.ToReal(v.t) if isinstance(v, SInt) else v.t), st)

    # ------------------------------------------------------------------ python builtins
    def b_len(self, args, kw, st, fr):
        ex = self.ex
        v = args[0]
        if isinstance(v, SList):
            return ex.ok(SInt(len(st.lists[v.lid])), st)
        if isinstance(v, (STuple, SSet)):
            return ex.ok(SInt(len(v.items)), st)
        if isinstance(v, SAbs):
            return ex.ok(SInt(v.length), st)
        if isinstance(v, SStr):
            if v.lit is not None:
                return ex.ok(SInt(len(v.lit)), st)
            st.assume(strlen(v.t) >= 0)
            return ex.ok(SInt(strlen(v.t)), st)
        if isinstance(v, SRef):
            hk = ex.hooks.get('len')
            if hk:
                r = hk(v, st, fr)
                if r is not None:
                    return r
        raise Unsupported('len of %r' % (v,))

    def b_abs(self, args, kw, st, fr):
        v = args[0]
        if isinstance(v, SInt):
            return self.ex.ok(SInt(z3.If(v.t >= 0, v.t, -v.t)), st)
        if isinstance(v, SVal):
            return self.ex.ok(SVal(z3.If(v.t >= 0, v.t, -v.t)), st)
        if isinstance(v, SRef):
            return self.ex.C.call_method(v, '__abs__', [], {}, st, fr)
        raise Unsupported('abs of %r' % (v,))

    def b_int(self, args, kw, st, fr):
        ex = self.ex
        if not args:
            return ex.ok(SInt(0), st)
        v = args[0]
        if isinstance(v, SInt):
            return ex.ok(v, st)
        if isinstance(v, SFloat):
            # int(float(num/den)): binary64 rounding happens before truncation (A-float)
            r = fresh_int('int_of_float')
            B53 = 2 ** 53
            small = z3.And(v.num >= -B53, v.num <= B53, v.den >= -B53, v.den <= B53)
            q, rem = ex.divmod_terms(v.num, v.den, st)
            st.assume(z3.Implies(small, z3.And(r >= q - 1, r <= q + 1, z3.Implies(rem == 0, r == q))))
            return ex.ok(SInt(r), st)
        if isinstance(v, SBool):
            return ex.ok(SInt(z3.If(v.t, 1, 0)), st)
        if isinstance(v, SAny):
            return ex.C.any_int(v, st)
        if isinstance(v, SStr):
            return ex.C.any_int(ex.C.to_any(v), st)
        if isinstance(v, SNone):
            return ex.exc('TypeError', st)
        if isinstance(v, SOpt):
            return ex.split(v.isnone, st, lambda s: ex.exc('TypeError', s), lambda s: self.b_int([v.inner], kw, s, fr))
        raise Unsupported('int() of %r' % (v,))

    def b_str(self, args, kw, st, fr):
        ex = self.ex
        if not args:
            return ex.ok(SStr(lit=''), st)
        v = args[0]
        if isinstance(v, SRef) and isinstance(v.cls, ClassInfo):
            m, _ = ex.C.find_method(v.cls, '__str__')
            if m is not None:
                return ex.C.call_method(v, '__str__', [], {}, st, fr)
        return ex.ok(ex.C.str_of(v, st), st)

    def b_round(self, args, kw, st, fr):
        "round(int, ndigits): ints round half to EVEN at negative ndigits (CPython)"
        ex = self.ex
        x = args[0]
        if not isinstance(x, SInt) or len(args) != 2 or not isinstance(args[1], SInt):
            raise Unsupported('round() of %r' % (x,))
        n = args[1].t

        def neg(s):
            ex.C.pow10_facts(s, -n)
            m = pow10(-n)
            q, r = ex.divmod_terms(x.t, m, s)
            res = z3.If(2 * r < m, q * m, z3.If(2 * r > m, (q + 1) * m, z3.If(q % 2 == 0, q * m, (q + 1) * m)))
            return ex.ok(SInt(res), s)
        return ex.split(n >= 0, st, lambda s: ex.ok(x, s), neg)

    def b_repr(self, args, kw, st, fr):
        return self.ex.ok(SStr(struct=('repr', args[0])), st)

    def b_bool(self, args, kw, st, fr):
        return self.ex.ok(SBool(self.ex.truth(args[0], st, fr)), st)

    def b_isinstance(self, args, kw, st, fr):
        ex = self.ex
        v, c = args
        classes = c.items if isinstance(c, STuple) else [c]
        res = []
        for k in classes:
            res.append(self.isinst1(v, k, st))
        if all(isinstance(r, bool) for r in res):
            return ex.ok(SBool(any(res)), st)
        terms = [z3.BoolVal(r) if isinstance(r, bool) else r for r in res]
        return ex.ok(SBool(z3.Or(*terms)), st)

    def isinst1(self, v, k, st):
        A = self.ex.C.AnyT
        if isinstance(k, SBuiltin):
            if k.name == 'int':
                if isinstance(v, SAny):
                    return z3.Or(A.is_i(v.t), A.is_b(v.t))
                if isinstance(v, SOpt):
                    r = self.isinst1(v.inner, k, st)
                    return z3.And(z3.Not(v.isnone), z3.BoolVal(r) if isinstance(r, bool) else r)
                return isinstance(v, (SInt, SBool))
            if k.name == 'str':
                if isinstance(v, SAny):
                    return A.is_s(v.t)
                return isinstance(v, SStr)
            if k.name == 'dict':
                if isinstance(v, SAny):
                    return False    # option values are scalars (A-dispatch)
                return isinstance(v, SRef) and v.cname == 'dict'
            if k.name in ('tuple', 'list', 'set', 'bool'):
                if k.name == 'bool':
                    return isinstance(v, SBool)
                return isinstance(v, {'tuple': STuple, 'list': SList, 'set': SSet}[k.name]) or \
                    (k.name == 'tuple' and isinstance(v, SRef) and v.cname.startswith('seq:tuple'))
        if isinstance(k, SClass):
            if isinstance(v, SRef) and isinstance(v.cls, ClassInfo):
                return v.cls is k.info or k.info in self.ex.C.base_classes(v.cls)
            if isinstance(v, SVal):
                hk = self.ex.hooks.get('isinstance_val')
                if hk:
                    return hk(v, k, st)
            return False
        if isinstance(k, SExcClass) and k.name == 'Fraction':
            return False
        raise Unsupported('isinstance(%r, %r)' % (v, k))

    def b_divmod(self, args, kw, st, fr):
        ex = self.ex
        a, b = args
        if isinstance(a, SInt) and isinstance(b, SInt):
            def okd(s):
                q, r = ex.divmod_terms(a.t, b.t, s)
                return ex.ok(STuple([SInt(q), SInt(r)]), s)
            if ex.spec_mode:
                return okd(st)
            return ex.split(b.t == 0, st, lambda s: ex.exc('ZeroDivisionError', s), okd)
        raise Unsupported('divmod of %r, %r' % (a, b))

    def _minmax(self, is_min, args, kw, st, fr):
        ex = self.ex
        if len(args) == 1:
            items = ex.C.concrete_items(args[0], st)
            if items is None:
                from .l2 import abs_minmax
                return abs_minmax(ex.C, is_min, args[0], st, fr)
        else:
            items = list(args)
        if not items:
            return ex.exc('ValueError', st)

        def go(i, best, s):
            if i == len(items):
                return ex.ok(best, s)
            x = items[i]
            # min: replace when x < best ; max: when x > best
            op = ast.Lt() if is_min else ast.Gt()

            def k(c, s2):
                return ex.split(ex.truth(c, s2, fr), s2, lambda s3: go(i + 1, x, s3), lambda s3: go(i + 1, best, s3))
            if isinstance(x, SInt) and isinstance(best, SInt):
                cond = x.t < best.t if is_min else x.t > best.t
                return go(i + 1, SInt(z3.If(cond, x.t, best.t)), s)
            return ex.bind(ex.compare(op, x, best, s, fr), k)
        return go(1, items[0], st)

    def b_min(self, args, kw, st, fr):
        return self._minmax(True, args, kw, st, fr)

    def b_max(self, args, kw, st, fr):
        return self._minmax(False, args, kw, st, fr)

    def b_sum(self, args, kw, st, fr):
        ex = self.ex
        items = ex.C.concrete_items(args[0], st)
        start = args[1] if len(args) > 1 else SInt(0)
        if items is None:
            from .l2 import abs_sum
            return abs_sum(ex.C, args[0], start, st, fr)

        def go(i, acc, s):
            if i == len(items):
                return ex.ok(acc, s)
            return ex.bind(ex.binop(ast.Add(), acc, items[i], s, fr), lambda v, s2: go(i + 1, v, s2))
        return go(0, start, st)

    def b_sorted(self, args, kw, st, fr):
        from .l2 import abs_sorted
        return abs_sorted(self.ex.C, args[0], kw, st, fr)

    def b_range(self, args, kw, st, fr):
        ex = self.ex
        ts = [z3.simplify(a.t) for a in args]
        if all(z3.is_int_value(t) for t in ts):
            r = range(*[t.as_long() for t in ts])
            if len(r) <= 64:
                return ex.ok(STuple([SInt(i) for i in r]), st)
        from .l2 import abs_range
        return ex.ok(abs_range(ex.C, args, st), st)

    def b_list(self, args, kw, st, fr):
        ex = self.ex
        if not args:
            return ex.ok(st.new_list([]), st)
        items = ex.C.concrete_items(args[0], st)
        if items is not None:
            return ex.ok(st.new_list(items), st)
        if isinstance(args[0], SAbs):
            return ex.ok(args[0], st)       # immutable snapshot
        hk = ex.hooks.get('list_of')
        if hk:
            r = hk(args[0], st, fr)
            if r is not None:
                return r
        raise Unsupported('list() of %r' % (args[0],))

    def b_tuple(self, args, kw, st, fr):
        ex = self.ex
        if not args:
            return ex.ok(STuple([]), st)
        items = ex.C.concrete_items(args[0], st)
        if items is not None:
            return ex.ok(STuple(items), st)
        raise Unsupported('tuple() of %r' % (args[0],))

    def b_set(self, args, kw, st, fr):
        ex = self.ex
        if not args:
            return ex.ok(SSet([]), st)
        if isinstance(args[0], SAbs) and args[0].ek == 'any' and not hasattr(args[0], 'pair_of'):
            return ex.ok(args[0], st)       # immutable view of the same members
        items = ex.C.concrete_items(args[0], st)
        if items is not None:
            return ex.ok(SSet(items), st)
        hk = ex.hooks.get('set_of')
        if hk:
            r = hk(args[0], st, fr)
            if r is not None:
                return r
        raise Unsupported('set() of %r' % (args[0],))

    def b_dict(self, args, kw, st, fr):
        if kw and not args:
            # dict(name=value, ...): a new dictionary with those literal keys
            C = self.ex.C
            d = C.new_dict(st)
            for k, v in kw.items():
                C.dict_store(st, d, SStr(lit=k), v)
            return self.ex.ok(d, st)
        if args or kw:
            hk = self.ex.hooks.get('dict_of')
            if hk:
                r = hk(args, kw, st, fr)
                if r is not None:
                    return r
            raise Unsupported('dict(...) with arguments')
        return self.ex.ok(self.ex.C.new_dict(st), st)

    def b_hasattr(self, args, kw, st, fr):
        ex = self.ex
        v, n = args
        if isinstance(v, SRef) and isinstance(v.cls, ClassInfo) and n.lit is not None:
            has = ex.C.field_kind(v.cname, n.lit) is not None or ex.C.find_method(v.cls, n.lit)[0] is not None
            if not has:
                try:
                    has = ex.C.class_attr(st, v.cls, n.lit) is not None
                except Unsupported:
                    has = True
            return ex.ok(SBool(has), st)
        raise Unsupported('hasattr')

    def b_print(self, args, kw, st, fr):
        return self.ex.ok(NONE, st)

    # int methods used by Fixed comparisons
    def _intm(self, on):
        def f(bound, args, kw, st, fr):
            o = args[0]
            if isinstance(o, SInt):
                return self.ex.ok(SBool(self.ex.intcmp(on, bound.t, o.t)), st)
            raise Unsupported('int comparison method with %r' % (o,))
        return f

    def b_int___eq__(self, *a):
        return self._intm('Eq')(*a)

    def b_int___ne__(self, *a):
        return self._intm('NotEq')(*a)

    def b_int___lt__(self, *a):
        return self._intm('Lt')(*a)

    def b_int___le__(self, *a):
        return self._intm('LtE')(*a)

    def b_int___gt__(self, *a):
        return self._intm('Gt')(*a)

    def b_int___ge__(self, *a):
        return self._intm('GtE')(*a)

    # list methods (concrete lists)
    def b_list_append(self, bound, args, kw, st, fr):
        st.lists[bound.lid].append(args[0])
        return self.ex.ok(NONE, st)

    def b_list_extend(self, bound, args, kw, st, fr):
        items = self.ex.C.concrete_items(args[0], st)
        if items is None:
            raise Unsupported('extend with abstract collection')
        st.lists[bound.lid].extend(items)
        return self.ex.ok(NONE, st)

    def b_list_pop(self, bound, args, kw, st, fr):
        lst = st.lists[bound.lid]
        if not lst:
            return self.ex.exc('IndexError', st)
        if args:
            raise Unsupported('pop(i)')
        return self.ex.ok(lst.pop(), st)

    def b_str_join(self, bound, args, kw, st, fr):
        items = self.ex.C.concrete_items(args[0], st)
        return self.ex.ok(SStr(struct=('join', bound, items if items is not None else args[0])), st)

    # ------------------------------------------------------------------ spec vocabulary
    def _b(self, v, st, fr):
        return self.ex.truth(v, st, fr)

    def b_spec_implies(self, args, kw, st, fr):
        return self.ex.ok(SBool(z3.Implies(self._b(args[0], st, fr), self._b(args[1], st, fr))), st)

    def b_spec_iff(self, args, kw, st, fr):
        return self.ex.ok(SBool(self._b(args[0], st, fr) == self._b(args[1], st, fr)), st)

    def b_spec_and_(self, args, kw, st, fr):
        return self.ex.ok(SBool(z3.And(*[self._b(a, st, fr) for a in args])), st)

    def b_spec_or_(self, args, kw, st, fr):
        return self.ex.ok(SBool(z3.Or(*[self._b(a, st, fr) for a in args])), st)

    def b_spec_not_(self, args, kw, st, fr):
        return self.ex.ok(SBool(z3.Not(self._b(args[0], st, fr))), st)

    def b_spec_truthy(self, args, kw, st, fr):
        return self.ex.ok(SBool(self._b(args[0], st, fr)), st)

    def b_spec_ite(self, args, kw, st, fr):
        return self.ex.ok(self.ex.C.ite_sv(self._b(args[0], st, fr), args[1], args[2]), st)

    def _num(self, v):
        if isinstance(v, (SInt, SVal)):
            return v.t
        raise Unsupported('numeric spec argument %r' % (v,))

    def b_spec_floor_of(self, args, kw, st, fr):
        "floor_of(q, n, d):  d != 0 and q == floor(n / d)"
        q, n, d = [self._num(a) for a in args]
        f = z3.Or(z3.And(d > 0, q * d <= n, n < (q + 1) * d),
                  z3.And(d < 0, q * d >= n, n > (q + 1) * d))
        return self.ex.ok(SBool(f), st)

    def b_spec_ceil_of(self, args, kw, st, fr):
        "ceil_of(q, n, d):  d != 0 and q == ceil(n / d)"
        q, n, d = [self._num(a) for a in args]
        f = z3.Or(z3.And(d > 0, (q - 1) * d < n, n <= q * d),
                  z3.And(d < 0, (q - 1) * d > n, n >= q * d))
        return self.ex.ok(SBool(f), st)

    def b_spec_pow10(self, args, kw, st, fr):
        n = args[0].t
        self.ex.C.pow10_facts(st, n)
        if self.ex.spec_pre is not None:
            self.ex.C.pow10_facts(self.ex.spec_pre, n)
        return self.ex.ok(SInt(pow10(n)), st)

    def b_spec_is_int(self, args, kw, st, fr):
        v = args[0]
        if isinstance(v, SAny):
            A = self.ex.C.AnyT
            return self.ex.ok(SBool(z3.Or(A.is_i(v.t), A.is_b(v.t))), st)
        return self.ex.ok(SBool(isinstance(v, (SInt, SBool))), st)

    def b_spec_is_none(self, args, kw, st, fr):
        return self.ex.ok(SBool(self.ex.C.identical(args[0], NONE, st)), st)

    def b_spec_is_val(self, args, kw, st, fr):
        return self.ex.ok(SBool(isinstance(args[0], SVal)), st)

    def b_spec_kind_of(self, args, kw, st, fr):
        v = args[0]
        k = v.kind if not isinstance(v, SRef) else v.cname.rsplit('.', 1)[-1]
        return self.ex.ok(SStr(lit=k), st)

    def b_spec_is_instance(self, args, kw, st, fr):
        v, c = args
        ok = isinstance(v, SRef) and isinstance(c, SClass) and isinstance(v.cls, ClassInfo) and \
            (v.cls is c.info)
        return self.ex.ok(SBool(bool(ok)), st)

    def b_spec_fresh(self, args, kw, st, fr):
        v = args[0]
        pre = self.ex.spec_pre
        if not isinstance(v, SRef) or pre is None:
            raise Unsupported('fresh() outside a postcondition')
        return self.ex.ok(SBool(z3.And(v.t >= pre.alloc, v.t < st.alloc)), st)

    def b_spec_allocated(self, args, kw, st, fr):
        v = args[0]
        return self.ex.ok(SBool(z3.And(v.t >= 1, v.t < st.alloc)), st)

    def b_spec_same_ref(self, args, kw, st, fr):
        a, b = args
        if isinstance(a, SOpt):
            a = a.inner
        if isinstance(b, SOpt):
            b = b.inner
        if isinstance(a, SNone) or isinstance(b, SNone):
            return self.ex.ok(SBool(isinstance(a, SNone) and isinstance(b, SNone)), st)
        return self.ex.ok(SBool(a.t == b.t), st)

    def b_spec_is_dfmt(self, args, kw, st, fr):
        return self.ex.ok(SBool(self.ex.C.is_dfmt(args[0], args[1].t)), st)

    def b_spec_is_dfmt_g(self, args, kw, st, fr):
        return self.ex.ok(SBool(self.ex.C.is_dfmt(args[0], args[1].t, args[2].t)), st)

    def b_spec_str_denotes(self, args, kw, st, fr):
        s, num, den = args
        if not isinstance(s, SStr):
            return self.ex.ok(SBool(False), st)
        return self.ex.ok(SBool(self.ex.C.str_denotes(s, num.t, den.t, st)), st)

    def b_spec_has_underscore(self, args, kw, st, fr):
        s = args[0]
        if isinstance(s, SStr) and s.struct and s.struct[0] == 'concat' and len(s.struct[1]) == 2 and \
                s.struct[1][0].lit == '-':
            s = s.struct[1][1]
        ok = isinstance(s, SStr) and bool(s.struct) and s.struct[0] == 'decg'
        if ok:
            return self.ex.ok(SBool(s.struct[6]), st)
        return self.ex.ok(SBool(False), st)

    def b_spec_str_of_int(self, args, kw, st, fr):
        return self.ex.ok(self.ex.C.str_of(args[0], st), st)

    def b_spec_static(self, args, kw, st, fr):
        "static(b): a condition that must be decidable at symbolic-execution time"
        t = z3.simplify(self._b(args[0], st, fr))
        if z3.is_true(t) or z3.is_false(t):
            return self.ex.ok(SBool(z3.is_true(t)), st)
        raise Unsupported('static() condition is symbolic')

    def b_spec_sv(self, args, kw, st, fr):
        return self.ex.ok(args[0], st)
