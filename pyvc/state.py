"""
Symbolic state: path condition, heap (one z3 array per class field), class attributes,
local environments (per activation), mutable concrete lists, ghost variables.
"""
import z3
from .sv import *   # noqa


class Out:
    "outcome of evaluating an expression or executing a statement"
    __slots__ = ('kind', 'val', 'st', 'exc')

    def __init__(self, kind, val, st, exc=None):
        self.kind = kind    # ok | ret | brk | cnt | exc
        self.val = val
        self.st = st
        self.exc = exc      # exception class name when kind == 'exc'

    def __repr__(self):
        return 'Out(%s,%r,%s)' % (self.kind, self.val, self.exc)


class State:
    def __init__(self):
        self.pc = []            # list of z3 Bool
        self.heap = {}          # (clsname, field) -> z3 array ; for opt fields also (clsname, field+'?')
        self.cattr = {}         # (clsname, attr) -> SV
        self.envs = {}          # frame id -> {name: SV}
        self.lists = {}         # lid -> [SV]
        self.ghost = {}         # name -> SV / python data
        self.alloc = z3.IntVal(1)   # refs < alloc are allocated
        self.facts = []         # [(cls qualname or None, callable(term)->Bool)]  schemas to instantiate
        self.refs = {}          # cls qualname -> list of z3 terms known on this path (instantiation set)
        self.log = []           # ghost: sequence of logged action tags (python-side) since start
        self.trace = []         # statement trace (lineno) for diagnostics

    def fork(self):
        s = State.__new__(State)
        s.pc = list(self.pc)
        s.heap = dict(self.heap)
        s.cattr = dict(self.cattr)
        s.envs = {k: dict(v) for k, v in self.envs.items()}
        s.lists = {k: list(v) for k, v in self.lists.items()}
        s.ghost = dict(self.ghost)
        s.alloc = self.alloc
        s.facts = list(self.facts)
        s.refs = {k: list(v) for k, v in self.refs.items()}
        s.log = list(self.log)
        s.trace = list(self.trace)
        return s

    def assume(self, b):
        if z3.is_true(b):
            return
        if z3.is_and(b):
            for c in b.children():
                self.assume(c)
            return
        self.pc.append(b)

    def note_ref(self, cname, t):
        lst = self.refs.setdefault(cname, [])
        for x in lst:
            if x.eq(t):
                return
        lst.append(t)

    def new_list(self, items):
        lid = len(self.lists) + 1
        while lid in self.lists:
            lid += 1
        self.lists[lid] = list(items)
        return SList(lid)
