"""
./check <property> [--tier quick|thorough]  : generate, discharge, replay, report.

exit 0  every obligation discharged (known findings printed)
exit 1  an obligation refuted and not a known finding  -> VIOLATION line
exit 2  undecided (unknown / ungenerated / vanished baseline obligation) and no stand-in decided
exit 3  checker crash
"""
import argparse
import json
import os
import sys
import time
import traceback

HERE = os.path.dirname(os.path.abspath(__file__))
ROOT = os.path.dirname(HERE)
sys.path.insert(0, ROOT)

from pyvc.loader import Repo                # noqa
from pyvc.spec import Specs                 # noqa
from pyvc.obligation import Collector       # noqa
from pyvc.verify import Verifier            # noqa
from pyvc.discharge import discharge        # noqa

TRUSTED_BASE = [
    'CPython semantics as encoded by PyVC (DESIGN 4.2: A-int, A-eval, A-dispatch, A-exc, A-fmt, A-lib, A-str, A-pow10)',
    'PyVC itself (ast -> SMT symbolic executor, /verif/pyvc): validated by canaries, cover obligations and seeded changes',
    'z3 4.x / cvc5 1.x SMT solvers',
    'sidecar contracts state the property (top-level ensures transcribed from properties.jsonl)',
]


def load_known():
    p = os.path.join(ROOT, 'known_findings.json')
    if os.path.exists(p):
        with open(p) as f:
            return json.load(f)
    return {'findings': [], 'fixed': []}


def main(argv=None):
    ap = argparse.ArgumentParser()
    ap.add_argument('prop')
    ap.add_argument('--tier', default=os.environ.get('VERIF_TIER', 'quick'))
    ap.add_argument('--jobs', type=int, default=0)
    ap.add_argument('--update-baseline', action='store_true')
    ap.add_argument('--verbose', '-v', action='store_true')
    ap.add_argument('--no-bounded', action='store_true')
    args = ap.parse_args(argv)
    pid = args.prop
    tier = 'thorough' if args.tier == 'thorough' else 'quick'
    seed = int(os.environ.get('VERIF_SEED', '0') or 0)
    t0 = time.time()
    try:
        from pyvc import plans
        res = plans.run_property(pid, tier, seed, args)
    except SystemExit:
        raise
    except Exception:
        traceback.print_exc()
        print('CHECKER-CRASH property=%s' % pid)
        return 3
    return res


if __name__ == '__main__':
    sys.exit(main())
