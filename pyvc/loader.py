"""
PyVC front end: read /repo's *current* source into a table of modules, classes and
functions.  Nothing is imported or executed; the text CPython runs is the text parsed here.
"""
import ast
import hashlib
import os

REPO = os.environ.get('DROOP_REPO', '/repo')


class FuncInfo:
    def __init__(self, node, qualname, module, owner=None, parent=None):
        self.node = node
        self.qualname = qualname
        self.module = module            # ModuleInfo
        self.owner = owner              # ClassInfo or None (lexically enclosing class)
        self.parent = parent            # enclosing FuncInfo for closures
        self.kind = 'function'          # function | method | classmethod | staticmethod | property
        for d in node.decorator_list:
            if isinstance(d, ast.Name) and d.id in ('classmethod', 'staticmethod', 'property'):
                self.kind = d.id
        if owner is not None and parent is None and self.kind == 'function':
            self.kind = 'method'
        self._nested = None

    @property
    def name(self):
        return self.node.name

    def nested(self):
        "FuncInfo for every def nested (at any statement depth) directly in this function"
        if self._nested is None:
            self._nested = {}
            for n in _walk_defs(self.node.body):
                self._nested[n.name] = FuncInfo(n, '%s.<locals>.%s' % (self.qualname, n.name),
                                                self.module, self.owner, self)
        return self._nested

    def params(self):
        a = self.node.args
        names = [x.arg for x in a.posonlyargs + a.args]
        return names

    def __repr__(self):
        return '<Func %s>' % self.qualname


def _walk_defs(stmts):
    "yield FunctionDef nodes in stmts, not descending into nested defs/classes"
    for s in stmts:
        if isinstance(s, (ast.FunctionDef,)):
            yield s
        elif isinstance(s, ast.ClassDef):
            continue
        else:
            for fld in ('body', 'orelse', 'finalbody'):
                sub = getattr(s, fld, None)
                if sub:
                    yield from _walk_defs(sub)
            if isinstance(s, ast.Try):
                for h in s.handlers:
                    yield from _walk_defs(h.body)


class ClassInfo:
    def __init__(self, node, qualname, module, outer=None):
        self.node = node
        self.qualname = qualname
        self.module = module
        self.outer = outer
        self.name = node.name
        self.bases = [ast.unparse(b) for b in node.bases]
        self.methods = {}
        self.attrs = {}         # class-level simple assignments: mangled name -> ast expr
        self.aliases = {}       # name -> name  (e.g. __truediv__ = __floordiv__)
        self.classes = {}
        self.slots = None
        for s in node.body:
            if isinstance(s, ast.FunctionDef):
                self.methods[s.name] = FuncInfo(s, '%s.%s' % (qualname, s.name), module, self)
            elif isinstance(s, ast.ClassDef):
                self.classes[s.name] = ClassInfo(s, '%s.%s' % (qualname, s.name), module, self)
            elif isinstance(s, ast.Assign) and len(s.targets) == 1 and isinstance(s.targets[0], ast.Name):
                t = s.targets[0].id
                if isinstance(s.value, ast.Name) and s.value.id in self.methods:
                    self.aliases[t] = s.value.id
                elif t == '__slots__':
                    try:
                        self.slots = tuple(ast.literal_eval(s.value))
                    except Exception:
                        self.slots = None
                else:
                    self.attrs[self.mangle(t)] = s.value

    def mangle(self, name):
        if name.startswith('__') and not name.endswith('__'):
            return '_%s%s' % (self.name.lstrip('_'), name)
        return name

    def method(self, name):
        name = self.aliases.get(name, name)
        return self.methods.get(name)

    def __repr__(self):
        return '<Class %s>' % self.qualname


class ModuleInfo:
    def __init__(self, name, path):
        self.name = name
        self.path = path
        with open(path, 'r', encoding='utf-8') as f:
            self.source = f.read()
        self.tree = ast.parse(self.source, path)
        self.classes = {}
        self.functions = {}
        self.imports = {}       # local name -> dotted target
        self.globals_ = {}      # simple module-level assignments: name -> ast expr
        pkg = name.rsplit('.', 1)[0] if '.' in name else ''
        is_pkg = os.path.basename(path) == '__init__.py'
        cur_pkg = name if is_pkg else pkg
        for s in self.tree.body:
            if isinstance(s, ast.ClassDef):
                self.classes[s.name] = ClassInfo(s, '%s.%s' % (name, s.name), self)
            elif isinstance(s, ast.FunctionDef):
                self.functions[s.name] = FuncInfo(s, '%s.%s' % (name, s.name), self)
            elif isinstance(s, ast.ImportFrom):
                base = cur_pkg
                for _ in range(max(s.level - 1, 0)):
                    base = base.rsplit('.', 1)[0] if '.' in base else ''
                if s.level == 0:
                    base = ''
                mod = '.'.join(x for x in (base, s.module or '') if x)
                for al in s.names:
                    self.imports[al.asname or al.name] = '%s.%s' % (mod, al.name) if mod else al.name
            elif isinstance(s, ast.Import):
                for al in s.names:
                    self.imports[al.asname or al.name.split('.')[0]] = al.name if al.asname else al.name.split('.')[0]
            elif isinstance(s, ast.Assign) and len(s.targets) == 1 and isinstance(s.targets[0], ast.Name):
                self.globals_[s.targets[0].id] = s.value


class Repo:
    "all droop modules of the working tree"

    def __init__(self, root=None):
        self.root = root or REPO
        self.modules = {}
        self.hash = hashlib.sha256()
        paths = []
        for dp, dn, fn in os.walk(os.path.join(self.root, 'droop')):
            dn[:] = [d for d in dn if d != '__pycache__']
            for f in sorted(fn):
                if f.endswith('.py'):
                    paths.append(os.path.join(dp, f))
        paths.append(os.path.join(self.root, 'Droop.py'))
        for p in sorted(paths):
            if not os.path.exists(p):
                continue
            rel = os.path.relpath(p, self.root)[:-3]
            name = rel.replace(os.sep, '.')
            if name.endswith('.__init__'):
                name = name[:-9]
            m = ModuleInfo(name, p)
            self.modules[name] = m
            self.hash.update(rel.encode())
            self.hash.update(m.source.encode())
        self.digest = self.hash.hexdigest()

    def module(self, name):
        return self.modules.get(name)

    def resolve(self, qualname):
        "find a ClassInfo / FuncInfo / ModuleInfo by dotted qualname (with .<locals>. parts)"
        if qualname in self.modules:
            return self.modules[qualname]
        parts = qualname.split('.')
        # longest module prefix
        for i in range(len(parts), 0, -1):
            mn = '.'.join(parts[:i])
            if mn in self.modules:
                cur = self.modules[mn]
                rest = parts[i:]
                break
        else:
            return None
        for p in rest:
            if p == '<locals>':
                continue
            if isinstance(cur, ModuleInfo):
                cur = cur.classes.get(p) or cur.functions.get(p)
            elif isinstance(cur, ClassInfo):
                cur = cur.method(p) or cur.classes.get(p)
            elif isinstance(cur, FuncInfo):
                cur = cur.nested().get(p)
            else:
                return None
            if cur is None:
                return None
        return cur

    def all_functions(self):
        "every def in the package, including methods and closures"
        out = []

        def rec_f(f):
            out.append(f)
            for g in f.nested().values():
                rec_f(g)

        def rec_c(c):
            for f in c.methods.values():
                rec_f(f)
            for k in c.classes.values():
                rec_c(k)
        for m in self.modules.values():
            for f in m.functions.values():
                rec_f(f)
            for c in m.classes.values():
                rec_c(c)
        return out
