"""
Obligations: what symbolic execution emits and the discharger decides.
"""
import z3


def _has_quantifier(t, limit=20000):
    todo = [t]
    seen = set()
    while todo:
        x = todo.pop()
        if z3.is_quantifier(x):
            return True
        i = x.get_id()
        if i in seen:
            continue
        seen.add(i)
        if len(seen) > limit:
            return True
        todo.extend(x.children())
    return False


_SYMS_CACHE = {}


def skolemize(goal, assumptions):
    """goal of the shape (forall x. body) [possibly under an implication / conjunction]: replace the bound
    variable by a fresh constant and instantiate every single-variable universally quantified assumption of the
    same sort at that constant (one round of manual E-matching).  Returns (assumptions', goal')."""
    if goal is None or assumptions is None:
        return assumptions, goal
    sks = []

    def strip(g):
        if z3.is_quantifier(g) and g.is_forall():
            n = g.num_vars()
            cs = [z3.Const('sk!%s!%d' % (g.var_name(i), len(sks) + i), g.var_sort(i)) for i in range(n)]
            sks.extend(cs)
            # de Bruijn: variable 0 is the innermost (last) bound variable
            return strip(z3.substitute_vars(g.body(), *reversed(cs)))
        if z3.is_implies(g):
            return z3.Implies(g.arg(0), strip(g.arg(1)))
        if z3.is_and(g):
            return z3.And(*[strip(c) for c in g.children()])
        return g
    try:
        g2 = strip(goal)
    except Exception:
        return assumptions, goal
    if not sks:
        return assumptions, goal
    extra = []
    for a in assumptions:
        if z3.is_quantifier(a) and a.is_forall() and a.num_vars() == 1:
            for c in sks:
                if a.var_sort(0) == c.sort():
                    try:
                        extra.append(z3.substitute_vars(a.body(), c))
                    except Exception:
                        pass
    return list(assumptions) + extra, g2


def fix_smt2(txt):
    "z3 prints the pointwise array combinators without the signature its own parser wants"
    if '(_ map ' in txt:
        txt = txt.replace('(_ map ite )', '(_ map (ite (Bool Any Any) Any))').replace('(_ map or )', '(_ map (or (Bool Bool) Bool))')
    return txt


class Ob:
    def __init__(self, oid, kind, props, func, desc, assumptions, goal, must='valid', meta=None):
        if must == 'valid' and assumptions is not None and goal is not None:
            assumptions, goal = skolemize(goal, assumptions)
        self.id = oid
        self.kind = kind            # POST EXC PRE INV VAR FRAME REL DEF SCAN LEMMA PROTO COVER CANARY
        self.props = list(props)
        self.func = func            # qualified name of the real function (or file for SCAN)
        self.desc = desc
        self.assumptions = assumptions  # list of z3 Bool (None for non-SMT obligations)
        self.goal = goal                # z3 Bool
        self.must = must            # 'valid' : assumptions => goal must be valid
        #                             'sat'   : assumptions /\ goal must be satisfiable (COVER)
        #                             'refuted': must NOT be valid (CANARY)
        self.meta = meta or {}
        self.frozen = None
        self.status = None          # proved | refuted | unknown | ungenerated | scan-ok | scan-fail
        self.backend = None
        self.time = 0.0
        self.model = None
        self.detail = None

    def smt2_qf(self):
        "sat-type obligations: the quantifier-free part only (vacuity guard of last resort)"
        s = z3.Solver()
        for a in self.assumptions:
            if not z3.is_quantifier(a) and '(forall' not in a.sexpr()[:0] :
                try:
                    if not _has_quantifier(a):
                        s.add(a)
                except Exception:
                    pass
        if self.must == 'sat':
            s.add(self.goal)
        return fix_smt2(s.to_smt2())

    def smt2_relaxed(self):
        "only the linear, quantifier-free assumptions (fewer premises: 'unsat' still proves the obligation)"
        from .symex import is_cheap
        from .l2 import _simplified
        s = z3.Solver()
        n = 0
        for a in self.assumptions:
            if is_cheap(a):
                s.add(a)
            else:
                b = _simplified(a)
                if b is not None:
                    s.add(b)
                else:
                    n += 1
        if n == 0:
            return None
        s.add(z3.Not(self.goal))
        return fix_smt2(s.to_smt2())

    def smt2_sliced(self, depth=2, maxfreq=60):
        """cone of influence of the goal: only the assumptions that share an uninterpreted symbol with the goal, directly or
        through `depth` rounds, ignoring symbols that occur in more than `maxfreq` assumptions (fewer premises: 'unsat' still
        proves the obligation; any other answer proves nothing)"""
        if len(self.assumptions) < 150:
            return None

        def syms(t):
            k = t.get_id()
            ent = _SYMS_CACHE.get(k)
            if ent is not None and ent[0].eq(t):
                return ent[1]
            r = syms0(t)
            if len(_SYMS_CACHE) > 200000:
                _SYMS_CACHE.clear()
            _SYMS_CACHE[k] = (t, r)     # the AST is kept alive with its entry: ids are recycled only after collection
            return r

        def syms0(t):
            out, todo, seen = set(), [t], set()
            while todo:
                x = todo.pop()
                i = x.get_id()
                if i in seen:
                    continue
                seen.add(i)
                if z3.is_quantifier(x):
                    todo.append(x.body())
                    continue
                if z3.is_app(x):
                    if x.decl().kind() == z3.Z3_OP_UNINTERPRETED:
                        out.add(x.decl().name())
                    todo.extend(x.children())
            return out
        S = [syms(a) for a in self.assumptions]
        freq = {}
        for s_ in S:
            for n in s_:
                freq[n] = freq.get(n, 0) + 1
        cur = syms(self.goal)
        chosen = set()
        for _ in range(depth):
            new = set()
            for i, s_ in enumerate(S):
                if i in chosen:
                    continue
                rel = {n for n in s_ if freq[n] <= maxfreq}
                if rel & cur:
                    chosen.add(i)
                    new |= rel
            cur |= new
        if not chosen or len(chosen) > 0.9 * len(self.assumptions):
            return None
        sl = z3.Solver()
        for i in sorted(chosen):
            sl.add(self.assumptions[i])
        sl.add(z3.Not(self.goal))
        return fix_smt2(sl.to_smt2())

    def smt2(self, hints=False):
        s = z3.Solver()
        if hints:
            # model-finding help for sat-type obligations: adding constraints can only lose models
            from .sv import pow10
            for i in range(0, 13):
                s.add(pow10(i) == 10 ** i)
        for a in self.assumptions:
            s.add(a)
        if self.must == 'sat':
            s.add(self.goal)
        else:
            s.add(z3.Not(self.goal))
        for name, term in (self.meta.get('observe') or {}).items():
            try:
                if z3.is_bool(term):
                    s.add(z3.Bool('OBS:' + name) == term)
                elif z3.is_int(term):
                    s.add(z3.Int('OBS:' + name) == term)
                elif z3.is_real(term):
                    s.add(z3.Real('OBS:' + name) == term)
            except Exception:
                pass
        for extra in self.meta.get('extra_assumptions', []):
            s.add(extra)
        return fix_smt2(s.to_smt2())

    def freeze(self):
        "serialise everything the discharger needs (so the obligation can be cached / pickled)"
        if self.assumptions is None or getattr(self, 'frozen', None) is not None:
            return
        fz = {'main': self.smt2()}
        if any(k.endswith('#str') for k in (self.meta.get('observe') or {})):
            from .sv import STR
            self.meta['strs'] = dict(STR.rev)
        if self.must == 'valid':
            fz['relaxed'] = self.smt2_relaxed()
            # (the cone-of-influence tier pays off in the rule bodies, whose path conditions run to hundreds of premises; for the
            # small arithmetic functions it only delays the full query)
            if self.kind in ('INV', 'PRE', 'POST', 'VAR') and self.goal is not None and '.count' in (self.func or ''):
                try:
                    fz['sliced'] = self.smt2_sliced()
                except Exception:
                    fz['sliced'] = None
        else:
            fz['hinted'] = self.smt2(hints=True)
            fz['qf'] = self.smt2_qf()
        self.frozen = fz

    def __getstate__(self):
        self.freeze()
        d = dict(self.__dict__)
        d['assumptions'] = [] if self.assumptions is not None else None
        d['goal'] = None
        m = dict(d.get('meta') or {})
        m['observe_names'] = sorted((m.get('observe') or {}).keys())
        m.pop('observe', None)
        m.pop('extra_assumptions', None)
        d['meta'] = m
        return d

    def summary(self):
        return {'id': self.id, 'kind': self.kind, 'function': self.func, 'desc': self.desc,
                'status': self.status, 'backend': self.backend, 'time_s': round(self.time, 4)}


class Collector:
    def __init__(self):
        self.obs = []
        self.ids = {}
        self.functions = set()      # functions under contract (verified against a contract)
        self.inlined = set()
        self.assumed = set()        # contracts used at call sites (assumed there; proved where claimed)
        self.notes = []

    def add(self, kind, props, func, anchor, desc, assumptions, goal, must='valid', meta=None):
        base = '%s:%s:%s' % (kind, func, anchor)
        n = self.ids.get(base, 0)
        self.ids[base] = n + 1
        oid = base if n == 0 else '%s~%d' % (base, n)
        ob = Ob(oid, kind, props, func, desc, assumptions, goal, must, meta)
        self.obs.append(ob)
        return ob

    def add_done(self, kind, props, func, anchor, desc, ok, detail=None, meta=None):
        "an obligation decided without SMT (SCAN / DEF / LEMMA)"
        base = '%s:%s:%s' % (kind, func, anchor)
        n = self.ids.get(base, 0)
        self.ids[base] = n + 1
        oid = base if n == 0 else '%s~%d' % (base, n)
        ob = Ob(oid, kind, props, func, desc, None, None, meta=meta)
        ob.status = 'proved' if ok else 'refuted'
        ob.backend = {'SCAN': 'ast-scan', 'DEF': 'cfg', 'LEMMA': 'lean'}.get(kind, 'internal')
        ob.detail = detail
        self.obs.append(ob)
        return ob

    def ungenerated(self, props, func, anchor, reason):
        ob = Ob('UNGEN:%s:%s' % (func, anchor), 'UNGEN', props, func, reason, None, None)
        ob.status = 'ungenerated'
        ob.detail = reason
        self.obs.append(ob)
        return ob
