"""
Verification of one real function against its sidecar contract: generates POST / EXC / FRAME /
COVER / CANARY obligations from the function's current AST.
"""
import ast
import itertools
import traceback
import z3
from .sv import *      # noqa
from .state import State, Out
from .symex import Exec, exc_isa
from .loader import FuncInfo, ClassInfo


class Verifier:
    def __init__(self, repo, specs, collector):
        self.repo = repo
        self.specs = specs
        self.col = collector
        self.hooks = []         # callables(ex) installing engine hooks
        self.tier = 'quick'     # contracts marked tier='thorough' are verified in the thorough tier only

    def in_tier(self, con):
        return con.opts.get('tier') != 'thorough' or self.tier == 'thorough'

    def new_exec(self):
        return Exec(self.repo, self.specs, self.col)

    def units_of(self, target):
        "independent pieces of work for one target: (contract name, instance) pairs of its verified contracts"
        out = []
        for con in self.specs.contracts.get(target, []):
            if con.opts.get('trusted') or not self.in_tier(con):
                continue
            for inst in (con.opts.get('instances') or [con.opts.get('instance', 'scaled')]):
                out.append((con.name, inst))
        return out

    def verify_target(self, target, props_filter=None, only=None):
        "verify every contract attached to the real function `target` (only=(contract name, instance): that piece alone)"
        info = self.repo.resolve(target)
        cons = self.specs.contracts.get(target, [])
        self.only_inst = None
        if only is not None:
            cons = [c for c in cons if c.name == only[0] or c.opts.get('trusted')]
            self.only_inst = only[1]
        if not isinstance(info, FuncInfo):
            for con in cons:
                self.col.ungenerated(con.props, target, 'bind', 'function %s not found in the working tree' % target)
            return
        for con in cons:
            if props_filter and not (con.all_props & set(props_filter)) and not con.opts.get('always'):
                continue
            if con.opts.get('trusted'):
                self.col.notes.append({'trusted_contract': target, 'reason': con.opts.get('trusted')})
                continue
            if not self.in_tier(con):
                self.col.notes.append({'thorough_only_contract': target, 'contract': con.name})
                continue
            self.verify(info, con)

    def verify(self, info, con):
        self.col.functions.add(info.qualname)
        alts = [a for _, a in con.params]
        insts = con.opts.get('instances') or [con.opts.get('instance', 'scaled')]
        import os as _os
        if _os.environ.get('PYVC_ONLY_INSTANCE'):      # debugging aid: one arithmetic instance only
            insts = [i for i in insts if i == _os.environ['PYVC_ONLY_INSTANCE']] or insts
        n_insts = len(con.opts.get('instances') or [1])
        if getattr(self, 'only_inst', None) is not None:
            insts = [i for i in insts if i == self.only_inst]
        for inst, case in itertools.product(insts, itertools.product(*alts)):
            cname = ','.join(case) + ('@' + inst if n_insts > 1 else '')
            self.cur_instance = inst
            try:
                self.verify_case(info, con, case)
            except Unsupported as e:
                self.col.ungenerated(con.props, info.qualname, 'case[%s]' % cname, 'unsupported: %s' % e)
            except RecursionError:
                self.col.ungenerated(con.props, info.qualname, 'case[%s]' % cname, 'recursion limit')

    def initial_state(self, ex, info, con, case):
        st = State()
        a0 = fresh_int('alloc0')
        st.assume(a0 >= 1)
        st.alloc = a0
        st.ghost['alloc0'] = a0
        env = {}
        for (pname, _), ann in zip(con.params, case):
            k = ex.C.resolve_kind(ann)
            if k.startswith('ref:') and pname == 'cls':
                pass
            if ann.startswith('class:'):
                env[pname] = SClass(self.repo.resolve(ann[6:]))
                continue
            if ann == 'any_rule':
                # self of a rule's method: an instance of the class that owns the function
                ann = 'ref:' + info.owner.qualname
            v = ex.C.fresh_by_annotation(ann, st, pname)
            env[pname] = v
        self.free_env = {}
        for n, ann in (con.opts.get('free') or {}).items():
            if ann == 'vclass':
                from .arith import VCLASS
                v = VCLASS
            elif ann in ('V0', 'V1'):
                v = ex.C.const_field(st, ann)
            else:
                v = ex.C.fresh_by_annotation(ann, st, n)
            self.free_env[n] = v
            env[n] = v
        # classmethod: cls parameter is the owner class itself (A-dispatch: no subclasses)
        if info.kind == 'classmethod':
            first = info.params()[0]
            env[first] = SClass(info.owner)
        return st, env

    def verify_case(self, info, con, case):
        ex = self.new_exec()
        ex.instance = getattr(self, 'cur_instance', None) or con.opts.get('instance', 'scaled')
        for hk in self.hooks:
            hk(ex)
        ex.cur_func = info
        ex.cur_props = con.props
        ex.ledger = bool(con.opts.get('ledger'))
        cname = ','.join(case) + ('@' + ex.instance if con.opts.get('instances') else '')
        st, env = self.initial_state(ex, info, con, case)
        # map contract parameter names onto the function's parameter names (positional)
        fparams = info.params()
        cparams = [p for p, _ in con.params]
        for n in (con.opts.get('free') or {}):
            pass
        if info.kind == 'classmethod' and (not cparams or cparams[0] != fparams[0]):
            cparams = [fparams[0]] + cparams
        if len(cparams) != len(fparams):
            raise Unsupported('contract/function arity mismatch: %s vs %s' % (cparams, fparams))
        ctx = ex.C.run_spec(con, env, st, st, None, 'pre')
        for f, lab in ctx.requires:
            st.assume(f)
        tag = '%s[%s]' % (con.name if con.name != '_' else 'contract', cname)
        # vacuity guard: the precondition is satisfiable
        self.col.add('COVER', con.props, info.qualname, tag + ':pre', 'precondition satisfiable',
                     list(st.pc), z3.BoolVal(True), must='sat')
        self.observe = self.observables(ex, env, st)
        pre = st.fork()
        parent_fid = None
        free = con.opts.get('free')
        if free:
            pf = ex.new_frame(st, info.parent, None, info.owner, info.module)
            pf.locals_set = set(pf.locals_set) | set(self.free_env)     # free variables may live further out
            parent_fid = pf.fid
            for n, v in self.free_env.items():
                st.envs[pf.fid][n] = v
            # sibling closures are visible by name
            if info.parent is not None:
                for nm, g in info.parent.nested().items():
                    st.envs[pf.fid].setdefault(nm, SFunc(g, parent_fid=pf.fid))
        fr = ex.new_frame(st, info, parent_fid, info.owner, info.module)
        for cp, fp in zip(cparams, fparams):
            st.envs[fr.fid][fp] = env[cp]
        # keyword-only params
        for x, d in zip(info.node.args.kwonlyargs, info.node.args.kw_defaults):
            if x.arg in env:
                st.envs[fr.fid][x.arg] = env[x.arg]
        outs = ex.run_block(info.node.body, st, fr)
        n_ok = 0
        canary_done = True
        ret_pcs = [z3.And(*ex.C.assumptions(o.st)) for o in outs if o.kind in ('ret', 'ok')]
        if ret_pcs:
            self.col.add('CANARY', con.props, info.qualname, tag + ':canary',
                         'ensures(False) must be refuted on some returning path (the engine does not prove everything)',
                         [z3.Or(*ret_pcs)], z3.BoolVal(False), must='refuted')
        for pi, o in enumerate(outs):
            ptag = '%s:path%d' % (tag, pi)
            if o.kind in ('ret', 'ok'):
                n_ok += 1
                result = o.val if o.kind == 'ret' else NONE
                self.check_return(ex, info, con, env, pre, o.st, result, ctx, ptag, canary=not canary_done)
                canary_done = True
            elif o.kind == 'exc':
                self.check_raise(ex, info, con, pre, o, ctx, ptag)
            else:
                raise Unsupported('break/continue escaping %s' % info.qualname)
        if not outs:
            self.col.ungenerated(con.props, info.qualname, tag, 'no feasible path (vacuous precondition?)')

    def observables(self, ex, env, pre):
        "named z3 terms of the initial state, evaluated in counter-models for replay"
        obs = {}
        for name, v in env.items():
            self._obs_value(ex, name, v, pre, obs)
        for (cq, attr), v in pre.cattr.items():
            self._obs_value(ex, '%s.%s' % (cq.rsplit('.', 1)[-1], attr), v, pre, obs, deep=False)
        return obs

    def _obs_value(self, ex, name, v, pre, obs, deep=True):
        if isinstance(v, (SInt, SBool, SVal)):
            obs[name] = v.t
        elif isinstance(v, SStr):
            obs[name + '#str'] = v.t
        elif isinstance(v, SOpt):
            obs[name + '#none'] = v.isnone
            self._obs_value(ex, name, v.inner, pre, obs, deep)
        elif isinstance(v, SRef) and deep and not isinstance(v.cls, str):
            obs[name + '#ref'] = v.t
            sc = ex.C.schema(v.cname)
            if sc is not None:
                for f, k in sc.fields.items():
                    if k in ('int', 'bool', 'val', 'str'):
                        obs['%s.%s' % (name, f)] = z3.Select(ex.C.heap_array(pre, v.cname, f, k), v.t)
        elif isinstance(v, SRef) and not deep and not isinstance(v.cls, str):
            sc = ex.C.schema(v.cname)
            if sc is not None:
                for f, k in sc.fields.items():
                    if k in ('int', 'bool', 'val'):
                        obs['%s.%s' % (name, f)] = z3.Select(ex.C.heap_array(pre, v.cname, f, k), v.t)

    def check_return(self, ex, info, con, env, pre, st, result, ctx, ptag, canary=False):
        col = self.col
        want = con.returns
        if want is not None:
            k = ex.C.resolve_kind(want)
            if not self.kind_matches(k, result):
                col.add('POST', con.props, info.qualname, ptag + ':result-kind',
                        'result is a %s (got %r)' % (want, result), list(st.pc), z3.BoolVal(False))
        ctx2 = ex.C.run_spec(con, env, pre, st, result, 'post')
        asm = ex.C.assumptions(st)
        for f, lab, props in ctx2.ensures:
            col.add('POST', props or con.props, info.qualname, ptag + ':' + lab[:70], 'ensures ' + lab, asm, f,
                    meta={'line': info.node.lineno, 'observe': self.observe, 'contract': con.name})
        for en, when in ctx.raises:
            if when is not None:
                col.add('EXC', con.props, info.qualname, ptag + ':must-raise-' + en,
                        'returns normally only when %s is not due' % en, asm, z3.Not(when))
        self.check_frame(ex, info, con, pre, st, ctx, ptag, asm)
        if con.opts.get('class_state'):
            self.check_class_state(ex, info, con, st, ptag, asm)
        if canary:
            col.add('CANARY', con.props, info.qualname, ptag.rsplit(':', 1)[0] + ':canary',
                    'ensures(False) must be refuted (the engine does not prove everything)', asm, z3.BoolVal(False),
                    must='refuted')

    def check_class_state(self, ex, info, con, st, ptag, asm):
        """non-interference of initialize(): on every returning path no class attribute was read before
        being assigned, and every attribute of the class schema has been assigned"""
        cq = con.opts['class_state']
        col = self.col
        reads = [k for k in st.ghost.get('prior_reads', []) if k[0] == cq]
        written = set(st.ghost.get('cattr_writes', []))
        may_keep = con.opts.get('may_keep') or {}
        sc = ex.C.schema(cq)
        for k in sorted(set(reads)):
            col.add('REL', con.props, info.qualname, '%s:prior-read-%s' % (ptag, k[1]),
                    'class attribute %s is not read before it is assigned (no dependence on earlier elections)' % k[1],
                    asm, z3.BoolVal(False))
        missing = [a for a in sc.cattrs if (cq, a) not in written and a not in may_keep]
        if missing:
            col.add('REL', con.props, info.qualname, '%s:unassigned-%s' % (ptag, ','.join(missing)[:60]),
                    'every class attribute is assigned on every returning path: %s left over' % ','.join(missing),
                    asm, z3.BoolVal(False))
        else:
            col.add_done('REL', con.props, info.qualname, '%s:all-assigned' % ptag,
                         'every class attribute of %s is (re)assigned from the options; none read before assignment%s'
                         % (cq.rsplit('.', 1)[-1], ' (conditionally kept: %s)' % ', '.join(sorted(may_keep)) if may_keep else ''),
                         not reads)

    def kind_matches(self, k, v):
        if k == 'none':
            return isinstance(v, SNone)
        if k == 'int':
            return isinstance(v, SInt)
        if k == 'bool':
            return isinstance(v, SBool)
        if k == 'str':
            return isinstance(v, SStr)
        if k == 'val':
            return isinstance(v, SVal)
        if k == 'any':
            return True
        if k.startswith('ref:'):
            return isinstance(v, SRef) and v.cname == k[4:]
        if k.startswith('opt:'):
            return isinstance(v, SNone) or self.kind_matches(k[4:], v.inner if isinstance(v, SOpt) else v)
        if k.startswith('tuple:'):
            return isinstance(v, STuple)
        return True

    def check_raise(self, ex, info, con, pre, o, ctx, ptag):
        col = self.col
        asm = ex.C.assumptions(o.st)
        matches = [(en, when) for en, when in ctx.raises if exc_isa(o.exc, en)]
        if not matches:
            col.add('EXC', con.props, info.qualname, ptag + ':escape-' + o.exc,
                    'exception %s escapes (not declared by the contract)' % o.exc, asm, z3.BoolVal(False),
                    meta={'exc': o.exc, 'trace': o.st.trace[-6:], 'observe': self.observe, 'contract': con.name})
            return
        conds = [w for _, w in matches if w is not None]
        if len(conds) == len(matches):
            col.add('EXC', con.props, info.qualname, ptag + ':raise-' + o.exc,
                    '%s raised only under its declared condition' % o.exc, asm, z3.Or(*conds))

    def check_frame(self, ex, info, con, pre, st, ctx, ptag, asm):
        "heap locations of pre-existing objects and class attributes written ⊆ declared modifies"
        if not ctx.frame_declared:
            return
        col = self.col
        a0 = pre.alloc
        allowed_fields = {}
        allowed_all = set()
        allowed_cattr = set()
        allowed_ghost = set()
        for m in ctx.modifies:
            if m[0] == 'field':
                cname = ex.C.field_owner(m[1].cname, m[2])
                allowed_fields.setdefault((cname, m[2]), []).append(m[1].t)
            elif m[0] == 'all':
                allowed_all.add((m[1], m[2]))
            elif m[0] == 'ghost':
                allowed_ghost.add('g:' + m[1])
            elif m[0] == 'dict':
                allowed_fields.setdefault(('dict', 'has'), []).append(m[1].t)
                allowed_fields.setdefault(('dict', 'val'), []).append(m[1].t)
            else:
                allowed_cattr.add((m[1], m[2]))
        for key, arr in st.heap.items():
            old = pre.heap.get(key)
            if old is None or arr.eq(old):
                continue
            base = (key[0], key[1].rstrip('?'))
            if base in allowed_all:
                continue
            r = fresh_int('fr')
            excl = [r != t for t in allowed_fields.get(base, [])]
            goal = z3.Implies(z3.And(r >= 1, r < a0, *excl), z3.Select(arr, r) == z3.Select(old, r))
            col.add('FRAME', con.props, info.qualname, '%s:%s.%s' % (ptag, key[0].rsplit('.', 1)[-1], key[1]),
                    'pre-existing objects keep %s.%s' % key, asm, goal)
        for gk, gv in st.ghost.items():
            if isinstance(gk, str) and gk.startswith('g:') and gk not in allowed_ghost:
                ov = pre.ghost.get(gk)
                if ov is not None and hasattr(gv, 't') and not gv.t.eq(ov.t):
                    col.add('FRAME', con.props, info.qualname, '%s:ghost-%s' % (ptag, gk[2:]),
                            'ghost %s unchanged' % gk[2:], asm, gv.t == ov.t)
        for key in st.ghost.get('cattr_writes', []):
            if key not in allowed_cattr:
                col.add('FRAME', con.props, info.qualname, '%s:cattr-%s' % (ptag, key[1]),
                        'class attribute %s.%s is not written' % key, asm, z3.BoolVal(False))


    # ------------------------------------------------------------------ lemmas over contracts
    def verify_lemma(self, con):
        """a lemma is a small program over *contracts* (callees are never executed by body):
        requires(...) assume, check(...) emit LEMMA obligations, other statements run normally"""
        insts = con.opts.get('instances') or [con.opts.get('instance', 'scaled')]
        alts = [a for _, a in con.params]
        for inst, case in itertools.product(insts, itertools.product(*alts)):
            self.cur_instance = inst
            cname = ','.join(case)
            try:
                self._lemma_case(con, case, cname)
            except Unsupported as e:
                self.col.ungenerated(con.props, con.target, 'case[%s]' % cname, 'unsupported: %s' % e)

    def _lemma_case(self, con, case, cname):
        ex = self.new_exec()
        ex.instance = self.cur_instance
        for hk in self.hooks:
            hk(ex)
        ex.cur_props = con.props

        class _F:           # stand-in for cur_func (obligation ids)
            qualname = con.target
        ex.cur_func = _F()
        st = State()
        a0 = fresh_int('alloc0')
        st.assume(a0 >= 1)
        st.alloc = a0
        st.ghost['alloc0'] = a0
        env = {}
        for (pname, _), ann in zip(con.params, case):
            env[pname] = ex.C.fresh_by_annotation(ann, st, pname)
        names = set(env) | {n.id for n in ast.walk(con.node) if isinstance(n, ast.Name) and isinstance(n.ctx, ast.Store)}
        fr = ex.new_frame(st, None, None, None, None, locals_set=names)
        fr.func = None
        st.envs[fr.fid].update(env)
        states = [st]
        tag = '%s[%s]' % (con.name, cname)
        for stmt in con.node.body:
            nxt = []
            for s in states:
                if isinstance(stmt, ast.Expr) and isinstance(stmt.value, ast.Constant):
                    nxt.append(s)
                    continue
                if isinstance(stmt, ast.Expr) and isinstance(stmt.value, ast.Call) and \
                        isinstance(stmt.value.func, ast.Name) and stmt.value.func.id in ('requires', 'check'):
                    saved = (ex.spec_mode, ex.spec_pre, ex.spec_result)
                    ex.spec_mode, ex.spec_pre, ex.spec_result = 'post', None, None
                    try:
                        f = ex.C.spec_bool(stmt.value.args[0], s, fr)
                    finally:
                        ex.spec_mode, ex.spec_pre, ex.spec_result = saved
                    if stmt.value.func.id == 'requires':
                        s.assume(f)
                    else:
                        kw = {k.arg: k.value for k in stmt.value.keywords}
                        lab = ast.literal_eval(kw['name']) if 'name' in kw else ast.unparse(stmt.value.args[0])
                        self.col.add('LEMMA', con.props, con.target, tag + ':' + lab[:70], 'lemma over contracts: ' + lab,
                                     ex.C.assumptions(s), f)
                    nxt.append(s)
                    continue
                for o in ex.run_stmt(stmt, s, fr):
                    if o.kind == 'ok':
                        nxt.append(o.st)
                    elif o.kind == 'exc':
                        self.col.add('LEMMA', con.props, con.target, tag + ':no-' + o.exc,
                                     'lemma program raises %s' % o.exc, ex.C.assumptions(o.st), z3.BoolVal(False))
            states = nxt
        if states:
            self.col.add('COVER', con.props, con.target, tag + ':reachable', 'lemma premises satisfiable',
                         [z3.Or(*[z3.And(*s.pc) for s in states])], z3.BoolVal(True), must='sat')
