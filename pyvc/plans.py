"""
Per-property orchestration: which generators run, verdict policy, evidence.
"""
import json
import os
import re
import sys
import time
import traceback
from collections import Counter

from .loader import Repo
from .spec import Specs
from .obligation import Collector
from .verify import Verifier
from .discharge import discharge

HERE = os.path.dirname(os.path.abspath(__file__))
ROOT = os.path.dirname(HERE)

PROOF_PROPS = set()     # filled from MANIFEST at run time if needed

ASSUMPTIONS_COMMON = [
    'A-int: Python int is mathematical; // and % are floor division / remainder with the divisor\'s sign',
    'A-eval: left-to-right evaluation, short-circuit booleans, stable sorted(), arbitrary set order',
    'A-dispatch: method/operator dispatch resolved from contract sorts; no monkey-patching (SCAN)',
    'A-exc: modelled exceptions only (explicit raise, assert, ZeroDivision, Key/Index/Value/Type/StopIteration, UnboundLocal); MemoryError, RecursionError, AttributeError not modelled',
    'A-pow10: 10**n modelled by uninterpreted pow10 with instantiated axioms (pow10(0)=1, pow10(n+1)=10*pow10(n), additivity, monotonicity)',
]


def extra_generators(pid):
    "property-specific generators beyond contracts tagged with pid: list of callables(ctx)"
    gens = []
    try:
        from . import gens as G
        gens = G.GENERATORS.get(pid, [])
    except ImportError:
        pass
    return gens


class RunCtx:
    def __init__(self, pid, tier, seed, args):
        self.pid = pid
        self.tier = tier
        self.seed = seed
        self.args = args
        self.repo = Repo()
        self.specs = Specs()
        self.col = Collector()
        self.V = Verifier(self.repo, self.specs, self.col)
        self.V.tier = tier
        from . import models
        self.V.hooks.append(models.install)
        self.engine_digest = engine_digest()
        self.cache_hits = 0
        self.bounded = []       # bounded stand-in results: dicts
        self.assumptions = list(ASSUMPTIONS_COMMON)
        self.violations = []    # (text, replay path)
        self.known_lines = []
        self.undecided = []


def safe(s):
    return re.sub(r'[^A-Za-z0-9_.\-]+', '_', s)[:150]


def engine_digest():
    import hashlib
    h = hashlib.sha256()
    for fn in sorted(os.listdir(HERE)):
        if fn.endswith('.py'):
            with open(os.path.join(HERE, fn), 'rb') as f:
                h.update(f.read())
    return h.hexdigest()


def gen_target(ctx, tgt, unit=None):
    """obligations generated for one real function (all its contracts; or one (contract, instance) unit of it), through a content-addressed cache:
    the key is the digest of /repo's current sources + the contracts + the engine, so a changed tree is
    always re-read and re-verified"""
    import pickle
    from .obligation import Collector as _Col
    key = '%s-%s-%s%s' % (ctx.repo.digest[:20], ctx.specs.digest[:20], ctx.engine_digest[:20], '-thorough' if ctx.tier == 'thorough' else '')
    cdir = os.path.join(ROOT, '.cache', key)
    path = unit_path(cdir, tgt, unit)
    if os.path.exists(path) and not os.environ.get('PYVC_NOCACHE'):
        try:
            with open(path, 'rb') as f:
                data = pickle.load(f)
            ctx.cache_hits += 1
            return data
        except Exception:
            pass
    # another check running at the same time may be generating the same target: wait for its result instead of
    # computing it twice (the lock only saves work; a stale or failed lock falls through to generating here)
    lock = path + '.lock'
    mine = False
    if not os.environ.get('PYVC_NOCACHE'):
        try:
            os.makedirs(cdir, exist_ok=True)
            fd = os.open(lock, os.O_CREAT | os.O_EXCL | os.O_WRONLY)
            os.write(fd, str(os.getpid()).encode())
            os.close(fd)
            mine = True
        except FileExistsError:
            deadline = time.time() + 1500
            while time.time() < deadline and os.path.exists(lock) and not os.path.exists(path):
                try:
                    with open(lock) as f:
                        owner = int(f.read().strip() or 0)
                    if owner and not os.path.exists('/proc/%d' % owner):
                        break       # the generating process is gone
                except Exception:
                    pass
                time.sleep(0.5)
            if os.path.exists(path):
                try:
                    with open(path, 'rb') as f:
                        data = pickle.load(f)
                    ctx.cache_hits += 1
                    return data
                except Exception:
                    pass
        except OSError:
            pass
    sub = _Col()
    V = Verifier(ctx.repo, ctx.specs, sub)
    V.tier = ctx.tier
    V.hooks = list(ctx.V.hooks)
    try:
        V.verify_target(tgt, None, only=unit)
    except Exception as e:      # engine failure on one target -> ungenerated, not a violation
        props = sorted(set().union(*[c.all_props for c in ctx.specs.contracts.get(tgt, [])]) or [ctx.pid])
        sub.ungenerated(props, tgt, 'engine', 'engine error: %s: %s' % (type(e).__name__, e))
        if ctx.args.verbose:
            traceback.print_exc()
    for o in sub.obs:
        o.freeze()
    data = {'obs': sub.obs, 'functions': sub.functions, 'inlined': sub.inlined, 'assumed': sub.assumed, 'notes': sub.notes}
    try:
        os.makedirs(cdir, exist_ok=True)
        tmp = path + '.%d.tmp' % os.getpid()
        with open(tmp, 'wb') as f:
            pickle.dump(data, f)
        os.replace(tmp, path)
    except Exception:
        pass
    if mine:
        try:
            os.unlink(lock)
        except OSError:
            pass
    return data


def unit_path(cdir, tgt, unit):
    nm = re.sub(r'[^A-Za-z0-9_.]+', '_', tgt)
    if unit is not None:
        nm += '@' + re.sub(r'[^A-Za-z0-9_.]+', '_', '%s.%s' % unit)
    return os.path.join(cdir, nm + '.pkl')


def _gen_worker(arg):
    pid, tier, seed, tgt, unit = arg

    class A:
        verbose = False
    ctx = RunCtx(pid, tier, seed, A())
    gen_target(ctx, tgt, unit)
    return tgt


def run_property(pid, tier, seed, args):
    t0 = time.time()
    ctx = RunCtx(pid, tier, seed, args)
    col = ctx.col
    # 1. contract obligations (generated per target, in parallel, cached by content digest)
    targets = [tgt for tgt, cons in ctx.specs.contracts.items() if any(pid in c.all_props for c in cons)]
    # one piece of work per (target, contract, arithmetic instance): generated in parallel, cached by content digest
    units = []
    for tgt in targets:
        us = ctx.V.units_of(tgt)
        units += [(tgt, u) for u in us] if len(us) > 1 else [(tgt, None)]
    missing = []
    key = '%s-%s-%s%s' % (ctx.repo.digest[:20], ctx.specs.digest[:20], ctx.engine_digest[:20], '-thorough' if tier == 'thorough' else '')
    cdir = os.path.join(ROOT, '.cache', key)
    for tgt, u in units:
        if not os.path.exists(unit_path(cdir, tgt, u)) or os.environ.get('PYVC_NOCACHE'):
            missing.append((tgt, u))
    if len(missing) > 1:
        import multiprocessing as mp
        # the heavy ones first (rule bodies), so that the pool is not left waiting for a late straggler
        missing.sort(key=lambda x: (0 if x[0].endswith('.count') else 1, x[0]))
        with mp.get_context('fork').Pool(min(16, len(missing))) as pool:
            pool.map(_gen_worker, [(pid, tier, seed, t, u) for t, u in missing], chunksize=1)
    for tgt, u in units:
        data = gen_target(ctx, tgt, u)
        for o in data['obs']:
            col.obs.append(o)
        col.functions |= data['functions']
        col.inlined |= data['inlined']
        col.assumed |= data['assumed']
        col.notes += data['notes']
    for lem in ctx.specs.lemmas:
        if pid in lem.all_props:
            try:
                ctx.V.verify_lemma(lem)
            except Exception as e:
                col.ungenerated([pid], lem.target, 'engine', 'engine error: %s: %s' % (type(e).__name__, e))
                if args.verbose:
                    traceback.print_exc()
    # 2. other generators (SCAN, REL, LEMMA, site obligations ...)
    for g in extra_generators(pid):
        try:
            g(ctx)
        except Exception as e:
            col.ungenerated([pid], getattr(g, '__name__', 'generator'), 'engine',
                            'engine error: %s: %s' % (type(e).__name__, e))
            if args.verbose:
                traceback.print_exc()
    obs = [o for o in col.obs if pid in o.props]
    tgen = time.time() - t0
    # 3. discharge
    discharge(obs, jobs=args.jobs or None, cross=(tier == 'thorough'))
    tsolve = sum(o.time for o in obs)
    # 4. bounded stand-ins
    if not args.no_bounded:
        try:
            from . import standins
            standins.run(ctx)
        except ImportError:
            pass
    # 5. verdicts
    return conclude(ctx, obs, t0, tgen, tsolve)


def load_known():
    p = os.path.join(ROOT, 'known_findings.json')
    if os.path.exists(p):
        with open(p) as f:
            return json.load(f)
    return {'findings': [], 'fixed': []}


def load_baseline(pid):
    p = os.path.join(ROOT, 'baseline', pid + '.json')
    if os.path.exists(p):
        with open(p) as f:
            return json.load(f)
    return None


def stable_id(oid):
    "obligation id without path ordinals (robust to path renumbering)"
    return re.sub(r':path\d+', '', re.sub(r'~\d+$', '', oid))


def conclude(ctx, obs, t0, tgen, tsolve):
    pid, tier, args = ctx.pid, ctx.tier, ctx.args
    known = load_known()
    refuted = [o for o in obs if o.status == 'refuted']
    unknown = [o for o in obs if o.status in ('unknown', 'ungenerated', None)]
    proved = [o for o in obs if o.status == 'proved']
    exit_code = 0
    lines = []
    # refuted obligations -> known finding? else replay and report
    from . import replay as RP
    for o in refuted:
        kf = RP.match_known(o, known, pid)
        if kf is not None:
            ok = RP.check_known(o, kf)
            if ok:
                lines.append('KNOWN-FINDING: property=%s %s' % (pid, kf['text']))
                o.status = 'known-finding'
                continue
        path, confirmed = RP.replay(o, pid)
        suffix = '' if confirmed else ' no-failing-input-found'
        lines.append('VIOLATION property=%s replay=%s%s' % (pid, path, suffix))
        print('  refuted: %s  (%s)' % (o.id, o.desc))
        exit_code = 1
    for b in ctx.bounded:
        for v in b.get('violations', []):
            kf = RP.match_known_bounded(v, known, pid)
            if kf is not None:
                line = 'KNOWN-FINDING: property=%s %s' % (pid, kf['text'])
                if line not in lines:
                    lines.append(line)
                continue
            lines.append('VIOLATION property=%s replay=%s' % (pid, v['replay']))
            print('  bounded monitor fired: %s' % v.get('what'))
            exit_code = 1
    # an obligation that was discharged on the unchanged tree (baseline) and that the solvers can no longer discharge
    # after both budgets has FAILED: it is reported as the violation, without a failing input (the solver gave none).
    # Obligations that are new, could not be generated (construct outside the subset) or are shape scans stay undecided.
    base = load_baseline(pid)
    failed = []
    if base is not None and not args.update_baseline:
        need0 = Counter(base.get('proved', []))
        have0 = Counter(stable_id(o.id) for o in obs if o.status in ('proved', 'known-finding'))
        short = {k: n - have0.get(k, 0) for k, n in need0.items() if have0.get(k, 0) < n}
        for o in unknown:
            k = stable_id(o.id)
            if o.status == 'unknown' and o.kind in ('POST', 'EXC', 'PRE', 'INV', 'VAR', 'FRAME', 'REL', 'LEMMA') \
                    and short.get(k, 0) > 0:
                short[k] -= 1
                failed.append(o)
    for o in failed:
        o.detail = 'discharged on the unchanged tree; now: %s (z3 and cvc5, normal and extended budgets)' % (o.detail or 'unknown')
        path, _ = RP.replay(o, pid)
        lines.append('VIOLATION property=%s replay=%s no-failing-input-found' % (pid, path))
        print('  failed: %s  (%s)' % (o.id, o.desc))
        o.status = 'failed'
        exit_code = 1
    unknown = [o for o in unknown if o.status != 'failed']
    # baseline comparison
    vanished = []
    if base is not None and not args.update_baseline:
        have = Counter(stable_id(o.id) for o in obs if o.status in ('proved', 'known-finding'))
        need = Counter(base.get('proved', []))
        for k, n in need.items():
            if have.get(k, 0) < n:
                # refuted ones are already reported; only count as vanished if not present at all
                present = sum(1 for o in obs if stable_id(o.id) == k)
                if present < n:
                    vanished.append(k)
    standin_ok = bool(ctx.bounded) and all(not b.get('violations') for b in ctx.bounded)
    if exit_code == 0 and (unknown or vanished):
        for o in unknown[:20]:
            print('UNDECIDED property=%s obligation=%s reason=%s' % (pid, o.id, o.detail or o.status))
        for k in vanished[:20]:
            print('UNDECIDED property=%s obligation=%s reason=baseline obligation no longer generated' % (pid, k))
        if standin_ok:
            for o in (unknown[:5]):
                print('PROOF-NOT-REESTABLISHED property=%s obligation=%s (bounded stand-in passed)' % (pid, o.id))
            exit_code = 0
        else:
            exit_code = 2
    for b in ctx.bounded:
        if b.get('error'):      # a stand-in that crashed says nothing about the property: checker failure, never silence
            print('STANDIN-ERROR property=%s %s' % (pid, b['error']))
            if exit_code == 0:
                exit_code = 3
    for ln in lines:
        print(ln)
    if args.update_baseline:
        os.makedirs(os.path.join(ROOT, 'baseline'), exist_ok=True)
        with open(os.path.join(ROOT, 'baseline', pid + '.json'), 'w') as f:
            json.dump({'property': pid,
                       'proved': sorted(stable_id(o.id) for o in obs if o.status in ('proved', 'known-finding'))},
                      f, indent=1)
    write_evidence(ctx, obs, t0, tgen, tsolve, exit_code, lines, unknown, vanished)
    n_viol = sum(1 for ln in lines if ln.startswith('VIOLATION'))
    print('%s tier=%s obligations=%d discharged=%d refuted=%d undecided=%d bounded_runs=%d wall=%.1fs exit=%d' % (
        pid, tier, len(obs), len([o for o in obs if o.status == 'proved']), n_viol,
        len(unknown) + len(vanished), len(ctx.bounded), time.time() - t0, exit_code))
    return exit_code


def write_evidence(ctx, obs, t0, tgen, tsolve, exit_code, lines, unknown, vanished):
    pid = ctx.pid
    col = ctx.col
    by_kind = Counter(o.kind for o in obs)
    by_backend = Counter(o.backend or 'none' for o in obs)
    by_status = Counter(o.status for o in obs)
    discharged = len([o for o in obs if o.status == 'proved'])
    samples = []
    seen_kinds = set()
    for o in obs:
        if o.kind not in seen_kinds or len(samples) < 6:
            seen_kinds.add(o.kind)
            samples.append({'id': o.id, 'kind': o.kind, 'function': o.func, 'statement': o.desc,
                            'status': o.status, 'backend': o.backend})
        if len(samples) >= 14:
            break
    funcs = sorted({o.func for o in obs if o.kind in ('POST', 'EXC', 'FRAME', 'INV', 'VAR', 'PRE')})
    level = 'proof'
    try:
        with open(os.path.join(ROOT, 'MANIFEST.json')) as f:
            for c in json.load(f).get('checks', []):
                if c['property_id'] == pid:
                    level = c['level_claimed']['category']
    except Exception:
        pass
    claimed = level
    all_proved = discharged == len(obs) and len(obs) > 0 and not unknown and not vanished
    if not obs:
        level = 'exploration' if ctx.bounded else 'other'
    elif claimed == 'proof' and not all_proved and exit_code == 0 and ctx.bounded:
        level = 'exploration'   # degradation path (DESIGN 4.8)
    cov = {
        'obligations': len(obs),
        'discharged': discharged,
        'checker_cmd': './check %s --tier %s' % (pid, ctx.tier),
        'trusted_base': list(ctx_trusted(ctx)),
        'trusted_contracts_used': sorted(a for a in col.assumed if a in trusted_contracts(ctx)),
        'by_kind': dict(by_kind),
        'by_backend': dict(by_backend),
        'by_status': {str(k): v for k, v in by_status.items()},
        'solver_time_s': round(tsolve, 3),
        'slowest_obligation_s': round(max([o.time or 0 for o in obs] or [0]), 3),
        'slowest_obligation': (max(obs, key=lambda o: o.time or 0).id if obs else None),
        'generation_time_s': round(tgen, 3),
        'functions_under_contract': funcs,
        'functions_inlined_into_callers': sorted(col.inlined),
        'contracts_assumed_at_call_sites': sorted(col.assumed),
        'undecided': [{'id': o.id, 'reason': o.detail or o.status} for o in unknown][:40] +
                     [{'id': k, 'reason': 'vanished'} for k in vanished][:40],
        'known_findings_reported': [ln for ln in lines if ln.startswith('KNOWN-FINDING')],
        'samples': samples,
        'repo_digest': ctx.repo.digest[:16],
        'contracts_digest': ctx.specs.digest[:16],
    }
    if ctx.bounded:
        cov['bounded'] = [{k: v for k, v in b.items() if k != 'violations'} | {'violations': len(b.get('violations', []))}
                          for b in ctx.bounded]
        ev = sum(b.get('evaluations', 0) for b in ctx.bounded)
        dn = sum(b.get('distinct_nontrivial', 0) for b in ctx.bounded)
        cov['evaluations'] = max(ev, 1)
        cov['distinct_nontrivial'] = max(dn, 2) if ev else 2
        cov['rule'] = '; '.join(b.get('rule', '') for b in ctx.bounded)
    if level != 'proof':
        cov.setdefault('evaluations', max(len(obs), 1))
        cov.setdefault('distinct_nontrivial', max(len({o.func for o in obs}), 2))
        cov.setdefault('rule', 'obligations generated from the current tree; distinct = distinct functions')
        cov.setdefault('explanation', 'no proof obligations discharged for this run; bounded stand-ins only')
    doc = {
        'property_id': pid,
        'tier': ctx.tier,
        'seed': ctx.seed,
        'level': level,
        'coverage': cov,
        'assumptions': ctx.assumptions + assumed_lines(ctx, col),
        'wall_s': round(time.time() - t0, 2),
        'violations': sum(1 for ln in lines if ln.startswith('VIOLATION')),
    }
    os.makedirs(os.path.join(ROOT, 'evidence'), exist_ok=True)
    with open(os.path.join(ROOT, 'evidence', pid + '.json'), 'w') as f:
        json.dump(doc, f, indent=1, default=str)


def trusted_contracts(ctx):
    "target -> reason for every contract marked trusted in the sidecar files"
    out = {}
    for tgt, cons in ctx.specs.contracts.items():
        for c in cons:
            if c.opts.get('trusted'):
                out[tgt] = c.opts['trusted']
    return out


def assumed_lines(ctx, col):
    """what the proofs of this run took on trust at call sites: contracts that are themselves verified (under the check of
    the property they are tagged with), trusted contracts (never verified: listed with the reason), and model entries"""
    tr = trusted_contracts(ctx)
    out = []
    for a in sorted(col.assumed):
        if a in col.functions:
            continue
        if a in tr:
            out.append('TRUSTED contract (not verified; bounded stand-in only): %s - %s' % (a, tr[a]))
        elif a.startswith('ledger:'):
            out.append('ledger model / lemma (assumed in the quick tier; the finite-sum facts are Lean theorems in lean/Ledger.lean, DESIGN 11.L): ' + a)
        elif a.endswith('(model)') or a.startswith('E.rounds'):
            out.append('model of the election data structures (assumed; select model checked by conformance obligations): ' + a)
        elif a in ctx.specs.contracts:
            props = sorted(set().union(*[c.all_props for c in ctx.specs.contracts[a]]))
            out.append('contract used at call sites, verified on its own under %s: %s' % ('/'.join(props), a))
        else:
            out.append('assumed at call sites: ' + a)
    return out


def ctx_trusted(ctx):
    from .run import TRUSTED_BASE
    return TRUSTED_BASE + getattr(ctx, 'extra_trusted', [])
