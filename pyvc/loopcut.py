"""
Loop cutting and comprehensions over abstract collections (filled in for L2).
"""
import ast
import z3
from .sv import *      # noqa
from .state import Out


def comprehension(C, e, st, fr, as_list):
    ex = C.ex
    if len(e.generators) != 1:
        raise Unsupported('nested comprehension')
    g = e.generators[0]

    def k(it, a):
        items = C.concrete_items(it, a)
        if items is not None:
            return concrete_comp(C, e, g, items, a, fr)
        from .l2 import abs_comprehension
        return abs_comprehension(C, e, g, it, a, fr, as_list)
    return ex.bind(ex.ev(g.iter, st, fr), k)


def concrete_comp(C, e, g, items, st, fr):
    ex = C.ex
    names = {n.id for n in ast.walk(g.target) if isinstance(n, ast.Name)}
    cfr = ex.new_frame(st, None, fr.fid, fr.owner, fr.module, locals_set=names)
    cfr.func = fr.func

    def go(i, acc, s):
        if i == len(items):
            return ex.ok(s.new_list(acc), s)
        outs = []
        for o0 in ex.assign(g.target, items[i], s, cfr):
            if o0.kind != 'ok':
                outs.append(o0)
                continue

            def conds(j, s2):
                if j == len(g.ifs):
                    return ex.bind(ex.ev(e.elt, s2, cfr), lambda v, s3: go(i + 1, acc + [v], s3))
                return ex.bind(ex.ev(g.ifs[j], s2, cfr),
                               lambda c, s3: ex.split(ex.truth(c, s3, cfr), s3, lambda s4: conds(j + 1, s4),
                                                      lambda s4: go(i + 1, acc, s4)))
            outs += conds(0, o0.st)
        return outs
    return go(0, [], st)


def for_cut(C, s, it, st, fr):
    from .l2 import for_cut as f
    return f(C, s, it, st, fr)


def while_cut(C, s, st, fr):
    from .l2 import while_cut as f
    return f(C, s, st, fr)
