"""
Engine hooks that model library-backed pieces of droop (installed on every Exec).
"""
import ast
import z3
from .sv import *      # noqa


def rational_wrapped(repo):
    """names of the Fraction methods re-wrapped by the module-level loop of values/rational.py,
    evaluated from its literal strings; None when the loop has another shape"""
    m = repo.module('droop.values.rational')
    if m is None:
        return None
    names = set()
    for s in m.tree.body:
        if isinstance(s, ast.For) and isinstance(s.iter, ast.Call) and isinstance(s.iter.func, ast.Attribute) \
                and s.iter.func.attr == 'split' and isinstance(s.iter.func.value, ast.Constant):
            words = s.iter.func.value.value.split()
            var = s.target.id if isinstance(s.target, ast.Name) else None
            for b in s.body:
                if isinstance(b, ast.Expr) and isinstance(b.value, ast.Call) and \
                        isinstance(b.value.func, ast.Name) and b.value.func.id == '_wrap_method' and \
                        len(b.value.args) == 1 and isinstance(b.value.args[0], ast.BinOp) and \
                        isinstance(b.value.args[0].op, ast.Mod) and isinstance(b.value.args[0].left, ast.Constant) \
                        and isinstance(b.value.args[0].right, ast.Name) and b.value.args[0].right.id == var:
                    for w in words:
                        names.add(b.value.args[0].left.value % w)
                else:
                    return None
    return names


def install(ex):
    wrapped = rational_wrapped(ex.repo) or set()

    def class_getattr(v, attr, st, fr):
        if v.info.qualname == 'droop.values.rational.Rational' and attr in wrapped and \
                attr in ('__mul__', '__truediv__', '__add__', '__sub__'):
            return ex.ok(SBuiltin('frac.' + attr), st)
        return None
    ex.hooks['class_getattr'] = class_getattr
