"""
Engine hooks that model library-backed pieces of droop (installed on every Exec).
"""
import ast
import z3
from .sv import *      # noqa


def rational_wrapped(repo):
    """names of the Fraction methods re-wrapped by the module-level loop of values/rational.py,
    evaluated from its literal strings; None when the loop has another shape"""
    m = repo.module('droop.values.rational')
    if m is None:
        return None
    names = set()
    for s in m.tree.body:
        if isinstance(s, ast.For) and isinstance(s.iter, ast.Call) and isinstance(s.iter.func, ast.Attribute) \
                and s.iter.func.attr == 'split' and isinstance(s.iter.func.value, ast.Constant):
            words = s.iter.func.value.value.split()
            var = s.target.id if isinstance(s.target, ast.Name) else None
            for b in s.body:
                if isinstance(b, ast.Expr) and isinstance(b.value, ast.Call) and \
                        isinstance(b.value.func, ast.Name) and b.value.func.id == '_wrap_method' and \
                        len(b.value.args) == 1 and isinstance(b.value.args[0], ast.BinOp) and \
                        isinstance(b.value.args[0].op, ast.Mod) and isinstance(b.value.args[0].left, ast.Constant) \
                        and isinstance(b.value.args[0].right, ast.Name) and b.value.args[0].right.id == var:
                    for w in words:
                        names.add(b.value.args[0].left.value % w)
                else:
                    return None
    return names


def install(ex):
    wrapped = rational_wrapped(ex.repo) or set()

    def class_getattr(v, attr, st, fr):
        if v.info.qualname == 'droop.values.rational.Rational' and attr in wrapped and \
                attr in ('__mul__', '__truediv__', '__add__', '__sub__'):
            return ex.ok(SBuiltin('frac.' + attr), st)
        return None
    ex.hooks['class_getattr'] = class_getattr


# =============================================================================================
# election model: candidates, ballots, rankings, ghost counters

CAND = 'droop.candidate.Candidate'
CANDS = 'droop.candidates.Candidates'
ELEC = 'droop.election.Election'
BALLOT = 'droop.election.Election.Ballot'

inC = z3.Function('inC', I, B)              # candidate object of the election under count
isBallot = z3.Function('isBallot', I, B)    # ballot object in E.ballots
byCid = z3.Function('byCid', I, I)          # cid -> candidate object
validcid = z3.Function('validcid', I, B)    # cid of a non-withdrawn candidate of this election
seqlen = z3.Function('seqlen', I, I)
seqelem = z3.Function('seqelem', I, I, I)
ballots_elem = z3.Function('ballots_elem', I, I)
ballots_pos = z3.Function('ballots_pos', I, I)
cands_elem = z3.Function('cands_elem', I, I)
cands_pos = z3.Function('cands_pos', I, I)
msg_subject = z3.Function('msg_subject', I, I)
whole_of = z3.Function('whole_of', I, I)          # stored units of V(k) -> k
whole_of_r = z3.Function('whole_of_r', R, I)
N_BALLOT_OBJS = z3.Int('n_ballot_objects')
RECORD = 'droop.record.ElectionRecord'
THE_E = z3.Int('the_election')             # the Election object being counted

# saved copies of the candidates (E.rounds[n] = Candidates.copy() taken when round n+1 begins): each copy is an object
# that is not a candidate of the election, carries its source's id and ballot order and the tally its source had then
isBallotEq = z3.Function('isBallotEq', I, B)
eq_toprank = z3.Function('eq_toprank', I, I)
eq_mult = z3.Function('eq_mult', I, I)
snap_iscopy = z3.Function('snap_iscopy', I, B)
snap_n = z3.Function('snap_n', I, I)
snap_src = z3.Function('snap_src', I, I)
snap_copyof = z3.Function('snap_copyof', I, I, I)
cand_of_cid = z3.Function('cand_of_cid', I, I)
_snapvote = {}


def snapvote_fn(ex):
    sort = R if ex.instance == 'real' else I
    key = 'real' if ex.instance == 'real' else 'int'
    if key not in _snapvote:
        _snapvote[key] = z3.Function('snap_vote_' + key, I, I, sort)
    return _snapvote[key]


GHOST_INT = ('nH', 'nE', 'nD', 'nW', 'nP', 'nlog', 'lastcomplete', 'hooked')
GHOST_STR = ('lasttag', 'lastmsg')
# the vote ledger (DESIGN 11.L): T = sum of all candidates' tallies + the non-transferable total (a value of the arithmetic
# class); G[c] = sum over the ballots that stand with candidate c of weight x multiplier (index 0: exhausted ballots).
# Both are maintained by the engine at every write of Candidate.vote / Election.exhausted / Ballot.weight / Ballot.index
# (sum-update lemma) while a contract with ledger=True is being verified.
GHOST_VAL = ('T', 'Tm', 'Tlog')
GHOST_ARR = ('G',)
CUR_EX = [None]


class SGhostArr(SV):
    "ghost array object id -> value of the arithmetic class"
    kind = 'gharr'

    def __init__(self, t):
        self.t = t

    def __repr__(self):
        return 'SGhostArr(%s)' % str(self.t)[:40]


def _val_sort():
    ex = CUR_EX[0]
    return R if (ex is not None and ex.instance == 'real') else I


def ghost_fresh(name):
    if name in GHOST_STR:
        return SStr(t=fresh_int('g_' + name))
    if name in GHOST_VAL:
        return SVal(z3.Const(fresh_name('g_' + name), _val_sort()))
    if name in GHOST_ARR:
        return SGhostArr(z3.Const(fresh_name('g_' + name), z3.ArraySort(I, _val_sort())))
    return SInt(fresh_int('g_' + name))


def ghost_get(st, name):
    k = 'g:' + name
    v = st.ghost.get(k)
    if v is None:
        if name in GHOST_STR:
            v = SStr(t=z3.Int('g0_' + name))
        elif name in GHOST_VAL:
            v = SVal(z3.Const('g0_' + name, _val_sort()))
        elif name in GHOST_ARR:
            v = SGhostArr(z3.Const('g0_' + name, z3.ArraySort(I, _val_sort())))
        else:
            v = SInt(z3.Int('g0_' + name))
        st.ghost[k] = v
        if name in GHOST_INT:
            st.assume(v.t >= 0)
    return v


def ledger_on(ex):
    return bool(getattr(ex, 'ledger', False))


def top_of(C, st, b):
    "the candidate object a ballot currently stands with (0: exhausted)"
    idx = z3.Select(C.heap_array(st, BALLOT, 'index', 'int'), b)
    rk = z3.Select(C.heap_array(st, BALLOT, 'ranking', 'seq:int'), b)
    return z3.If(z3.And(idx >= 0, idx < seqlen(rk)), byCid(seqelem(rk, idx)), z3.IntVal(0))


def ballot_value(C, st, b, weight=None):
    "weight x multiplier of a ballot object (the multiplier is a whole number: count_entry)"
    ex = C.ex
    w = weight if weight is not None else z3.Select(C.heap_array(st, BALLOT, 'weight', 'val'), b)
    m = z3.Select(C.heap_array(st, BALLOT, 'multiplier', 'val'), b)
    if ex.instance == 'real':
        return w * z3.ToReal(whole_of_r(m))
    return w * whole_of(m)


def arr_move(G, frm, to, amt):
    "G with amt taken from index frm and added at index to"
    G1 = z3.Store(G, frm, z3.Select(G, frm) - amt)
    return z3.Store(G1, to, z3.Select(G1, to) + amt)


def str_id(s):
    return SStr(lit=s).t


def election_facts(ex, st):
    if st.ghost.get('election_facts'):
        return
    st.ghost['election_facts'] = True
    C = ex.C
    st.assume(N_BALLOT_OBJS >= 0)
    a0 = st.ghost.get('alloc0', st.alloc)
    st.facts.append((BALLOT, lambda t: z3.Implies(isBallot(t), z3.And(
        t >= 1, t < a0, ballots_pos(t) >= 0, ballots_pos(t) < N_BALLOT_OBJS, ballots_elem(ballots_pos(t)) == t))))
    st.facts.append((CAND, lambda t: z3.Implies(inC(t), z3.And(
        t >= 1, t < a0, cands_pos(t) >= 0, cands_elem(cands_pos(t)) == t))))
    for g in GHOST_INT:
        ghost_get(st, g)
    # candidates and ballots of the election point back to it (Election.__init__ passes self)
    st.facts.append((CAND, lambda t: z3.Implies(inC(t), z3.Select(C.heap_array(st, CAND, 'E', 'ref:' + ELEC), t) == THE_E)))
    st.facts.append((BALLOT, lambda t: z3.Implies(isBallot(t), z3.Select(C.heap_array(st, BALLOT, 'E', 'ref:' + ELEC), t) == THE_E)))
    # A-profile (C15 post-parse invariant): every ranking entry is the id of a non-withdrawn candidate
    sq, jq = z3.Int('sq!'), z3.Int('jq!')
    st.assume(z3.ForAll([sq, jq], z3.Implies(z3.And(jq >= 0, jq < seqlen(sq)), validcid(seqelem(sq, jq))),
                        patterns=[seqelem(sq, jq)]))
    kq = z3.Int('kq!')
    carr = C.heap_array(st, CAND, 'cid', 'int')
    st.assume(z3.ForAll([kq], z3.Implies(validcid(kq), z3.And(inC(byCid(kq)), byCid(kq) >= 1, byCid(kq) < a0,
                                                              z3.Select(carr, byCid(kq)) == kq)),
                        patterns=[byCid(kq)]))
    # candidate ids are distinct (A-profile): Candidates.byCid is the inverse of .cid on the candidates of the election
    st.facts.append((CAND, lambda t: z3.Implies(inC(t), byCid(z3.Select(C.heap_array(st, CAND, 'cid', 'int'), t)) == t)))
    # every candidate of the election has one of the four states; counters are non-negative
    stt = C.heap_array(st, CAND, 'state', 'str')
    st.facts.append((CAND, lambda t: z3.Implies(inC(t), z3.Or(*[z3.Select(C.heap_array(st, CAND, 'state', 'str'), t) == str_id(x)
                                                                 for x in ('hopeful', 'elected', 'defeated', 'withdrawn')]))))


def ballot_inv(ex, st):
    """data-structure invariant of ballots on the current heap: 0 <= index <= len(ranking), rankings non-empty.
    Ballot.index is written only by Ballot.advance / Ballot.restart (SCAN single-writer); advance requires
    index < len (PRE at every call site), restart sets 0: so the invariant survives every havoc of the field."""
    C = ex.C
    idx = C.heap_array(st, BALLOT, 'index', 'int')
    rk = C.heap_array(st, BALLOT, 'ranking', 'seq:int')
    b = z3.Int('b!inv')
    body = [z3.Select(idx, b) >= 0, z3.Select(idx, b) <= seqlen(z3.Select(rk, b)), seqlen(z3.Select(rk, b)) >= 1]
    caller = ex.cur_func.qualname if ex.cur_func is not None else ''
    if caller.startswith(('droop.rules.wigm.', 'droop.rules.wigm_prf.', 'droop.rules.cfer.', 'droop.rules.scotland.', 'droop.rules.mpls.')) \
            and ex.instance != 'guarded':
        # Gregory family: 0 <= weight <= 1 (every store to .weight in these modules carries the `range` site obligation)
        w = C.heap_array(st, BALLOT, 'weight', 'val')
        one = C.const_field(st, 'V1').t
        body += [z3.Select(w, b) >= 0, z3.Select(w, b) <= one]
    return z3.ForAll([b], z3.Implies(isBallot(b), z3.And(*body)))


def after_havoc(ex, st, keys):
    if (BALLOT, 'index') in keys or (BALLOT, 'weight') in keys:
        st.assume(ballot_inv(ex, st))


def state_is(C, st, t, name):
    return z3.Select(C.heap_array(st, CAND, 'state', 'str'), t) == str_id(name)


def pending_true(C, st, t):
    C.heap_array(st, CAND, 'pending', 'opt:bool')
    return z3.And(z3.Not(z3.Select(st.heap[(CAND, 'pending?')], t)), z3.Select(st.heap[(CAND, 'pending')], t))


def select_pred(C, st, what):
    "membership predicate of C.select(what) on the current heap (snapshot)"
    sarr = C.heap_array(st, CAND, 'state', 'str')
    C.heap_array(st, CAND, 'pending', 'opt:bool')
    pn, pv = st.heap[(CAND, 'pending?')], st.heap[(CAND, 'pending')]
    is_ = lambda t, n: z3.Select(sarr, t) == str_id(n)      # noqa
    pend = lambda t: z3.And(z3.Not(z3.Select(pn, t)), z3.Select(pv, t))     # noqa
    if what == 'all':
        return lambda t: inC(t)
    if what == 'eligible':
        return lambda t: z3.And(inC(t), z3.Not(is_(t, 'withdrawn')))
    if what == 'pending':
        return lambda t: z3.And(inC(t), is_(t, 'elected'), pend(t))
    if what == 'notpending':
        return lambda t: z3.And(inC(t), is_(t, 'elected'), z3.Not(pend(t)))
    if what in ('hopeful', 'elected', 'defeated', 'withdrawn'):
        return lambda t: z3.And(inC(t), is_(t, what))
    raise Unsupported('select(%s)' % what)


def select_len(st, what):
    g = lambda n: ghost_get(st, n).t        # noqa
    return {'all': lambda: g('nH') + g('nE') + g('nD') + g('nW'),
            'eligible': lambda: g('nH') + g('nE') + g('nD'),
            'pending': lambda: g('nP'), 'notpending': lambda: g('nE') - g('nP'),
            'hopeful': lambda: g('nH'), 'elected': lambda: g('nE'), 'defeated': lambda: g('nD'),
            'withdrawn': lambda: g('nW')}[what]()


def sorted_facts(C, st, R, keyname, reverse):
    "first / last element extremal for the key; adjacent order on demand (DESIGN: sorted is a stable permutation)"
    if keyname == 'tie':
        arr = C.heap_array(st, CAND, 'tieOrder', 'int')
        key = lambda t: z3.Select(arr, t)       # noqa
        keys = [key]
    elif keyname == 'ballot':
        arr = C.heap_array(st, CAND, 'order', 'int')
        keys = [lambda t: z3.Select(arr, t)]
    elif keyname == 'vote':
        varr = C.heap_array(st, CAND, 'vote', 'val')
        oarr = C.heap_array(st, CAND, 'order', 'int')
        keys = [lambda t: z3.Select(varr, t), lambda t: z3.Select(oarr, t)]
    else:
        return
    R.sort_keys = keys
    R.sort_reverse = reverse

    def le(a, b):       # key(a) <= key(b) lexicographically
        if len(keys) == 1:
            return keys[0](a) <= keys[0](b)
        return z3.Or(keys[0](a) < keys[0](b), z3.And(keys[0](a) == keys[0](b), keys[1](a) <= keys[1](b)))
    first, last = R.elem(z3.IntVal(0)), R.elem(R.length - 1)
    lo, hi = (last, first) if reverse else (first, last)
    st.facts.append((CAND, lambda t: z3.Implies(z3.And(R.mem(t), R.length >= 1), z3.And(le(lo, t), le(t, hi)))))
    R.le = le


def install_election(ex):
    C = ex.C
    repo = ex.repo
    CUR_EX[0] = ex

    def mk_select(st, what, order, reverse):
        election_facts(ex, st)
        mem = select_pred(C, st, what)
        n = select_len(st, what)
        from .l2 import mk_abs
        R = mk_abs(C, st, 'ref:' + CAND, mem, n, base='sel_' + what, distinct=True)
        w = fresh_int('wit_' + what)
        st.assume(z3.Implies(n >= 1, mem(w)))
        st.note_ref(CAND, w)
        # a member exists iff the counter is positive (card lemma)
        st.facts.append((CAND, lambda t: z3.Implies(mem(t), n >= 1)))
        if order in ('tie', 'ballot', 'vote'):
            sorted_facts(C, st, R, order, reverse)
        return R

    SELECTS = {'eligible', 'withdrawn', 'hopeful', 'elected', 'defeated', 'notpending', 'pending'}

    def lit(v, default=None):
        if v is None:
            return default
        if isinstance(v, SStr) and v.lit is not None:
            return v.lit
        if isinstance(v, SBool):
            t = z3.simplify(v.t)
            if z3.is_true(t):
                return True
            if z3.is_false(t):
                return False
        raise Unsupported('non-literal argument to a Candidates selector')

    SINGLE_DEFEAT = {'Defeat', 'Defeat low candidate'}
    BATCH_DEFEAT = {'Defeat batch(zero)', 'Defeat sure loser', 'Defeat batch', 'Defeat certain loser',
                    'Defeat remaining', 'Defeat remaining candidates', 'Defeat low quotient'}

    def site_obligations(info, env, st, fr, node):
        """rule-level obligations at the call sites of the status writers (only inside rule modules):
        C07 a singly excluded candidate has a lowest tally; the surplus transferred first is a largest one;
        C04 nobody holding a quota is excluded"""
        caller = ex.cur_func.qualname if ex.cur_func is not None else ''
        if not caller.startswith('droop.rules.') or getattr(ex, 'muted', 0):
            return
        name = info.qualname.rsplit('.', 1)[1]
        me = env['self']
        varr = C.heap_array(st, CAND, 'vote', 'val')
        hop = select_pred(C, st, 'hopeful')
        y = z3.Int('y!site')
        line = getattr(node, 'lineno', 0)
        if name == 'defeat' and ex.instance != 'guarded':
            msg = env.get('msg')
            lit_ = msg.lit if isinstance(msg, SStr) else None
            family = caller.split('.')[2]
            if lit_ is not None and (lit_ in SINGLE_DEFEAT or lit_ not in BATCH_DEFEAT and not lit_.startswith('Defeat (')) \
                    and family in ('wigm', 'wigm_prf', 'cfer', 'scotland', 'mpls'):
                ex.col.add('PRE', ['C07'], caller, 'defeat@%d:lowest' % ex.C.site_anchor_n(caller, 'defeat-lowest', line),
                           'a candidate excluded singly has a lowest tally among the hopeful candidates',
                           C.assumptions(st), z3.ForAll([y], z3.Implies(hop(y), z3.Select(varr, me.t) <= z3.Select(varr, y))))
            if family in ('wigm', 'wigm_prf', 'cfer', 'scotland') and lit_ is not None and not lit_.startswith('Defeat remaining'):
                q = C.read_field(st, C.read_field(st, me, 'E'), 'quota').t
                v = z3.Select(varr, me.t)
                holds = (v > q) if ex.instance == 'real' else (v >= q)
                ex.col.add('PRE', ['C04'], caller, 'defeat@%d:no-quota' % ex.C.site_anchor_n(caller, 'defeat-noquota', line),
                           'a candidate holding a quota is never excluded', C.assumptions(st), z3.Not(holds))
        if caller.startswith('droop.rules.qpq.') and name in ('defeat', 'elect'):
            # QPQ 2.5/2.6: the candidate excluded has a smallest quotient among the hopefuls, the one elected a largest
            msg = env.get('msg')
            lit_ = msg.lit if isinstance(msg, SStr) else None
            if lit_ in ('Defeat low quotient', 'Elect high quotient'):
                C.heap_array(st, CAND, 'quotient', 'opt:val')
                qarr, qn = st.heap[(CAND, 'quotient')], st.heap[(CAND, 'quotient?')]
                mine = z3.Select(qarr, me.t)
                cmp_ = (lambda a, b: a <= b) if name == 'defeat' else (lambda a, b: a >= b)
                ex.col.add('PRE', ['C07'], caller, '%s@%d:extreme-quotient' % (name, ex.C.site_anchor_n(caller, name + '-quotient', line)),
                           'QPQ: the candidate %s has a %s quotient among the hopeful candidates' % (
                               'excluded' if name == 'defeat' else 'elected', 'smallest' if name == 'defeat' else 'largest'),
                           C.assumptions(st), z3.And(z3.Not(z3.Select(qn, me.t)),
                                                     z3.ForAll([y], z3.Implies(z3.And(hop(y), z3.Not(z3.Select(qn, y))), cmp_(mine, z3.Select(qarr, y))))))
        if name == 'unpend' and ex.instance != 'guarded':
            msg = env.get('msg')
            lit_ = msg.lit if isinstance(msg, SStr) else None
            if lit_ == 'Transfer high surplus':
                pend = select_pred(C, st, 'pending')
                ex.col.add('PRE', ['C07'], caller, 'unpend@%d:largest' % ex.C.site_anchor_n(caller, 'unpend-largest', line),
                           'the surplus transferred first is a largest one',
                           C.assumptions(st), z3.ForAll([y], z3.Implies(pend(y), z3.Select(varr, me.t) >= z3.Select(varr, y))))

    WIGM_MODULES = ('droop.rules.wigm.', 'droop.rules.wigm_prf.', 'droop.rules.cfer.', 'droop.rules.scotland.', 'droop.rules.mpls.')
    _parents = {}

    def parent_map(func):
        pm = _parents.get(func.qualname)
        if pm is None:
            pm = {}
            for n in ast.walk(func.node):
                for c in ast.iter_child_nodes(n):
                    pm[id(c)] = n
            _parents[func.qualname] = pm
        return pm

    def enclosing_surplus_sweep(fr, node):
        "the candidate expression X of the nearest enclosing `for b in (b for b in E.ballots if b.topRank == X.cid)`"
        if fr.func is None:
            return None
        pm = parent_map(fr.func)
        n = pm.get(id(node))
        while n is not None:
            if isinstance(n, ast.For) and isinstance(n.iter, ast.GeneratorExp) and len(n.iter.generators) == 1:
                for cond in n.iter.generators[0].ifs:
                    if isinstance(cond, ast.Compare) and len(cond.ops) == 1 and isinstance(cond.ops[0], ast.Eq) and \
                            isinstance(cond.left, ast.Attribute) and cond.left.attr == 'topRank' and \
                            isinstance(cond.comparators[0], ast.Attribute) and cond.comparators[0].attr == 'cid':
                        return cond.comparators[0].value
            n = pm.get(id(n))
        return None

    def pre_store(ov, attr, v, st, fr, node):
        """site obligations at every assignment to a ballot's weight inside the Gregory-family rules (C06, C02):
        the value never increases and stays >= 0; in a surplus sweep it is never more than old x surplus / tally and
        falls short of it by less than one unit per truncation"""
        caller = ex.cur_func.qualname if ex.cur_func is not None else ''
        if attr != 'weight' or not isinstance(ov, SRef) or ov.cname != BALLOT or getattr(ex, 'muted', 0):
            return
        if not caller.startswith(WIGM_MODULES) or ex.instance == 'guarded' or not isinstance(v, SVal):
            return
        from .arith import SCALE, scale_facts
        line = getattr(node, 'lineno', 0)
        old = C.read_field(st, ov, 'weight').t
        new = v.t
        k = C.site_anchor_n(caller, 'weight-store', line)
        asm = C.assumptions(st)
        ex.col.add('PRE', ['C06'], caller, 'weight@%d:range' % k, 'a ballot value never increases and never becomes negative',
                   asm, z3.And(new >= 0, new <= old))
        X = enclosing_surplus_sweep(fr, node)
        if X is None:
            return
        outs = ex.ev(X, st.fork(), fr)
        if len(outs) != 1 or outs[0].kind != 'ok' or not isinstance(outs[0].val, (SRef, SOpt)):
            return
        hc = outs[0].val.inner if isinstance(outs[0].val, SOpt) else outs[0].val
        varr = C.heap_array(st, CAND, 'vote', 'val')
        tally = z3.Select(varr, hc.t)
        q = C.read_field(st, SRef(repo.resolve(ELEC), THE_E), 'quota').t
        surplus = tally - q
        ex.col.add('PRE', ['C06', 'C02'], caller, 'weight@%d:never-up' % k,
                   'the new ballot value is never more than old value x surplus / tally (rounded down, never up)',
                   asm, new * tally <= old * surplus)
        if ex.instance == 'real':
            ex.col.add('PRE', ['C06', 'C02'], caller, 'weight@%d:exact' % k, 'under exact arithmetic the new value is exactly old x surplus / tally',
                       asm, new * tally == old * surplus)
        else:
            scale_facts(st, ex)
            ex.col.add('PRE', ['C06', 'C02'], caller, 'weight@%d:loss' % k,
                       'the new value falls short of old x surplus / tally by less than one unit per truncation (two truncations)',
                       asm, old * surplus - new * tally < tally + SCALE)
        info = st.ghost.get('ledger_sweep')
        if ledger_on(ex) and info is not None and info[0].eq(hc.t):
            # the same bound in the terms of the sweep's ledger invariant, and multiplied by the number of ballot papers the
            # line stands for (a lemma of its own over two premises: the solver is not asked to find the product in a large context)
            _hc, v_, s_ = info[:3]
            mraw = z3.Select(C.heap_array(st, BALLOT, 'multiplier', 'val'), ov.t)
            m = z3.ToReal(whole_of_r(mraw)) if ex.instance == 'real' else whole_of(mraw)
            rel = (lambda a, b: a == b) if ex.instance == 'real' else (lambda a, b: a <= b)
            l1 = rel(new * v_, old * s_)
            l3 = m >= 1
            l2 = rel(new * v_ * m, old * s_ * m)
            ex.col.add('PRE', ['C02', 'C06'], caller, 'weight@%d:never-up:ledger-terms' % k,
                       'the new ballot value x tally of the elected candidate is at most (exactly, under exact arithmetic) old value x surplus',
                       asm, l1)
            ex.col.add('PRE', ['C02'], caller, 'weight@%d:papers' % k, 'a ballot line stands for at least one ballot paper', asm, l3)
            ex.col.add('PRE', ['C02'], caller, 'weight@%d:never-up:line-value' % k,
                       'the bound carries over to the value of the whole ballot line (x number of papers)', [l1, l3], l2)
            st.assume(l1)
            st.assume(l2)
            if ex.instance != 'real':
                from .arith import SCALE as _S
                l5 = old * s_ - new * v_ <= v_ + _S - 1
                ex.col.add('PRE', ['C02', 'C06'], caller, 'weight@%d:loss:ledger-terms' % k,
                           'old value x surplus - new value x tally is less than tally + one vote (one unit per truncation)', asm, l5)
                st.assume(l5)
                st.ghost['ledger_loss_lemma'] = (ov.t, l5)
    ex.hooks['pre_store'] = pre_store

    def post_contract(info, env, result, pre, st):
        """inside a surplus sweep, after transfer(b): how the two sides of the sweep's ledger invariant moved, as products already
        multiplied out (each identity is an obligation over one premise; the solver then only adds up)"""
        sw = st.ghost.get('ledger_sweep')
        if not ledger_on(ex) or sw is None or info.name != 'transfer' or 'ballot' not in env or getattr(ex, 'muted', 0):
            return
        caller = ex.cur_func.qualname if ex.cur_func is not None else ''
        hc, v, s_, T0, G0h, Th, Gh, Wh = sw[:8]
        mc_, it_ = (sw[8], sw[9]) if len(sw) > 9 else (None, None)
        b = env['ballot'].t
        mraw = z3.Select(C.heap_array(st, BALLOT, 'multiplier', 'val'), b)
        real = ex.instance == 'real'
        m = z3.ToReal(whole_of_r(mraw)) if real else whole_of(mraw)
        new = z3.Select(C.heap_array(st, BALLOT, 'weight', 'val'), b)
        old = z3.Select(Wh, b)
        T1, G1h = ledger_T(st), z3.Select(ledger_G(st), hc)
        e1 = T1 == Th + new * m
        e2 = G1h == Gh - old * m
        id1 = (T1 - T0) * v == (Th - T0) * v + new * m * v
        id2 = (G0h - G1h) * s_ == (G0h - Gh) * s_ + old * m * s_
        asm = C.assumptions(st)
        k = C.site_anchor_n(caller, 'ledger-step', 0)
        add = lambda tag, desc, a, g: ex.col.add('PRE', ['C02'], caller, 'ledger-step@%d:%s' % (k, tag), desc, a, g)   # noqa
        add('credited', 'in a surplus sweep the total credited grows by the new value of the ballot line', asm, e1)
        add('left-pile', 'in a surplus sweep the elected candidate\'s pile shrinks by the old value of the ballot line', asm, e2)
        add('credited-x-tally', 'the same, multiplied by the tally (polynomial identity)', [e1], id1)
        add('left-pile-x-surplus', 'the same, multiplied by the surplus (polynomial identity)', [e2], id2)
        for f in (e1, e2, id1, id2):
            st.assume(f)
        loss = st.ghost.get('ledger_loss_lemma')
        if not real and mc_ is not None and loss is not None and loss[0].eq(b):
            # the loss side: (old x surplus - new x tally) x papers <= (tally + one vote) x papers, and the papers counter multiplied out
            from .arith import SCALE
            l_loss = loss[1]
            l4 = old * m * s_ - new * m * v <= v * m + SCALE * m
            e3 = mc_(it_ + 1) == mc_(it_) + m
            id3 = (v + SCALE) * mc_(it_ + 1) == (v + SCALE) * mc_(it_) + v * m + SCALE * m
            add('loss-per-line', 'the rounding loss of a ballot line is less than one unit per truncation and paper', [l_loss, m >= 1], l4)
            add('papers', 'the papers counter grows by the papers of the line', asm, e3)
            add('papers-x-bound', 'the same, multiplied by (tally + one vote) (polynomial identity)', [e3], id3)
            for f in (l4, e3, id3):
                st.assume(f)
    ex.hooks['post_contract'] = post_contract

    RULE_HOOKS = ('droop.rules.electionrule.ElectionRule.action', 'droop.rules.electionmethods.MethodWIGM.action',
                  'droop.rules.electionmethods.MethodMeek.action', 'droop.rules.qpq.Rule.action')

    LOG_POINTS = ('droop.candidate.Candidate.defeat', 'droop.candidate.Candidate.unpend', 'droop.candidate.Candidate.elect',
                  'droop.election.Election.logAction', 'droop.election.Election.newRound', 'droop.election.Election.log')

    def ledger_site(info, st, node):
        """C02 at every point of a rule's count() where an action is recorded: the tallies and the non-transferable total add
        up to no more than the ballots cast (exactly the ballots cast under exact arithmetic)"""
        caller = ex.cur_func.qualname if ex.cur_func is not None else ''
        if not ledger_on(ex) or not caller.startswith(WIGM_MODULES) or not caller.endswith('.count'):
            return
        quiet = bool(getattr(ex, 'muted', 0))     # exploratory runs: no obligations, but the ghost bookkeeping below still happens

        class _Q:
            @staticmethod
            def add(*a, **k):
                if not quiet:
                    ex.col.add(*a, **k)
        col_ = _Q
        from .arith import lift
        election_facts(ex, st)
        nB = C.read_field(st, C.read_field(st, SRef(repo.resolve(ELEC), THE_E), 'electionProfile'), 'nBallots').t
        total = lift(C, SInt(nB), st)
        T = ghost_get(st, 'T').t
        line = getattr(node, 'lineno', 0)
        k = C.site_anchor_n(caller, 'ledger-log', line) if not quiet else 0
        what = info.qualname.rsplit('.', 1)[1]
        if ex.instance == 'real':
            col_.add('PRE', ['C02'], caller, 'ledger@%d:%s:conserved' % (k, what),
                       'at a recorded step the tallies and the non-transferable total add up to exactly the ballots cast (exact arithmetic)',
                       C.assumptions(st), T == total)
        else:
            col_.add('PRE', ['C02'], caller, 'ledger@%d:%s:no-creation' % (k, what),
                       'at a recorded step the tallies and the non-transferable total add up to no more than the ballots cast',
                       C.assumptions(st), T <= total)
        # loss accounting between two recorded steps: nothing is lost unless a surplus was transferred in between, and then less than
        # one unit per truncation and ballot paper (Tlog = the total at the previous recorded step; the ballots cast before the first)
        Tlog = ghost_get(st, 'Tlog').t
        rw = st.ghost.get('ledger_rw')
        if ex.instance == 'real' or rw is None:
            col_.add('PRE', ['C02'], caller, 'ledger@%d:%s:lossless-step' % (k, what),
                       'between two recorded steps without a surplus transfer (any two steps under exact arithmetic) no vote is lost',
                       C.assumptions(st), T == Tlog)
        else:
            v_, s_, Mtot, T0_, Tx_, G0h_ = rw
            from .arith import SCALE, scale_facts
            scale_facts(st, ex)
            held = G0h_ == v_
            e_t = z3.And(Tlog == T0_, T == Tx_ - s_)
            idL = (Tlog - T) * v_ == v_ * s_ - (Tx_ - T0_) * v_
            idG = G0h_ * s_ == v_ * s_
            asm = C.assumptions(st)
            col_.add('PRE', ['C02', 'C06'], caller, 'ledger@%d:%s:held-its-pile' % (k, what),
                       'the elected candidate held exactly the value of the ballots standing with it when its surplus sweep began', asm, held)
            col_.add('PRE', ['C02'], caller, 'ledger@%d:%s:step-totals' % (k, what),
                       'the total before the sweep is the total of the previous recorded step; after the reset it is the total after the sweep less the surplus',
                       asm, e_t)
            col_.add('PRE', ['C02'], caller, 'ledger@%d:%s:loss-identity' % (k, what), 'polynomial identity (loss x tally)', [e_t], idL)
            col_.add('PRE', ['C02'], caller, 'ledger@%d:%s:pile-identity' % (k, what), 'polynomial identity (pile x surplus)', [held], idG)
            for f_ in (held, e_t, idL, idG):
                st.assume(f_)
            col_.add('PRE', ['C02'], caller, 'ledger@%d:%s:loss-bounded' % (k, what),
                       'a surplus transfer loses less than one unit per truncation and ballot paper: loss x tally <= (tally + one vote) x papers re-weighted',
                       C.assumptions(st), (Tlog - T) * v_ <= (v_ + SCALE) * Mtot)
        st.ghost['g:Tlog'] = SVal(T)
        st.ghost['ledger_rw'] = None

    def pre_call(info, env, st, fr, node):
        q = info.qualname
        if q in RULE_HOOKS:
            # ghost: which action dictionary the rule's recording hook has been called on (C19: complete before append)
            a = env.get('action')
            if isinstance(a, SOpt):
                a = a.inner
            if isinstance(a, SRef) and a.cname == 'dict':
                ghost_get(st, 'hooked')
                st.ghost['g:hooked'] = SInt(a.t)
            return None
        if q in LOG_POINTS:
            ledger_site(info, st, node)
        if q in ('droop.candidate.Candidate.defeat', 'droop.candidate.Candidate.unpend', 'droop.candidate.Candidate.elect'):
            site_obligations(info, env, st, fr, node)
            return None
        if not q.startswith('droop.candidates.Candidates.'):
            return None
        if ex.cur_func is not None and ex.cur_func.qualname == q:
            return None
        name = q.rsplit('.', 1)[1]
        if name == 'select':
            R = mk_select(st, lit(env['state']), lit(env.get('order'), 'none'), lit(env.get('reverse'), False))
            ex.col.assumed.add(q + ' (model)')
            return ex.ok(R, st)
        if name in SELECTS:
            R = mk_select(st, name, lit(env.get('order'), 'none'), lit(env.get('reverse'), False))
            ex.col.assumed.add(q + ' (model)')
            return ex.ok(R, st)
        if name in ('byTieOrder', 'byVote', 'byBallotOrder'):
            from .l2 import iter_to_abs, mk_abs
            L = iter_to_abs(C, env['candidates'], st, fr)
            R = mk_abs(C, st, L.ek, L.mem, L.length, base=name, distinct=L.distinct)
            R.facts = R.facts + L.facts
            sorted_facts(C, st, R, {'byTieOrder': 'tie', 'byVote': 'vote', 'byBallotOrder': 'ballot'}[name],
                         lit(env.get('reverse'), False))
            ex.col.assumed.add(q + ' (model)')
            return ex.ok(R, st)
        if name == 'byCid':
            election_facts(ex, st)
            k = env['cid']
            if isinstance(k, SOpt):
                k = k.inner
            caller = ex.cur_func.qualname if ex.cur_func else '?'
            ex.col.add('PRE', ex.cur_props or [], caller, 'byCid:valid-cid',
                       'Candidates.byCid is called with the id of a candidate of this election', C.assumptions(st),
                       validcid(k.t))
            st.assume(validcid(k.t))
            r = byCid(k.t)
            cid_facts(st, k.t)
            st.note_ref(CAND, r)
            return ex.ok(SRef(repo.resolve(CAND), r), st)
        return None

    def cid_facts(st, k):
        carr = C.heap_array(st, CAND, 'cid', 'int')
        st.assume(z3.Implies(validcid(k), z3.And(inC(byCid(k)), z3.Select(carr, byCid(k)) == k,
                                                 z3.Not(state_is(C, st, byCid(k), 'withdrawn')))))
    ex.cid_facts = cid_facts

    def model_field(st, ref, field, kind):
        election_facts(ex, st)
        if kind == 'model:ballots':
            L = SAbs('ref:' + BALLOT, lambda t: isBallot(t), N_BALLOT_OBJS, elem=lambda i: ballots_elem(i),
                     pos=lambda t: ballots_pos(t), distinct=True, ordered=True, name='E.ballots')
            L.facts = [lambda t: z3.Implies(isBallot(t), z3.And(ballots_pos(t) >= 0, ballots_pos(t) < N_BALLOT_OBJS,
                                                                 ballots_elem(ballots_pos(t)) == t))]
            return L
        if kind == 'model:rule':
            r = st.ghost.get('rule_ref')
            if r is not None:
                return r
            # the rule object seen from outside a rule: an instance of some subclass of ElectionRule; calls on it are
            # checked against the base-class contract, which every override is verified against (behavioural subtyping)
            base = repo.resolve('droop.rules.electionrule.ElectionRule')
            if base is not None:
                return SRef(base, z3.Int('the_rule'))
        if kind == 'model:rounds':
            return SRef('rounds', ref.t)
        if kind == 'model:ballotsEqual':
            # ballots with equal rankings (read by the Meek family only): abstract objects whose top rank is a non-empty
            # group of valid candidate ids (A-profile) and whose multiplier is a whole number
            from .l2 import mk_abs
            n = z3.Int('n_ballots_equal')
            st.assume(n >= 0)
            return mk_abs(C, st, 'ref:balloteq', lambda t: isBallotEq(t), n, base='ballotsEqual', distinct=True, register=False)
        if kind == 'model:flag':
            return SBool(fresh_bool(field))      # a flag the model does not track: any value
        return None

    def pseudo_subscript(c, i, st, fr):
        "E.rounds[n]: one saved copy per round begun so far (len(E.rounds) == E.round: A-rounds, SCAN-checked)"
        if c.cname == RECORD and isinstance(i, SStr) and i.lit == 'actions':
            return ex.ok(SRef('actionlog', c.t), st)     # the list of recorded actions: the ghost log
        if c.cname != 'rounds' or not isinstance(i, SInt):
            return None
        ex.col.assumed.add('E.rounds[n] is the copy of the candidates saved when round n+1 began (model; SCAN rounds-protocol)')
        rnd = C.read_field(st, SRef(repo.resolve(ELEC), c.t), 'round').t
        idx = z3.If(i.t >= 0, i.t, rnd + i.t)
        return ex.split(z3.And(idx >= 0, idx < rnd), st, lambda s_: ex.ok(SRef('snap', z3.simplify(idx)), s_),
                        lambda s_: ex.exc('IndexError', s_))
    ex.hooks['pseudo_subscript'] = pseudo_subscript

    def pseudo_getattr(v, attr, st, fr):
        if v.cname == 'balloteq':
            if attr == 'topRank':
                sid = eq_toprank(v.t)
                st.assume(seqlen(sid) >= 1)
                return ex.ok(SRef('seq:int', sid), st)
            if attr == 'multiplier':
                from .arith import lift
                st.assume(eq_mult(v.t) >= 1)
                return ex.ok(SVal(lift(C, SInt(eq_mult(v.t)), st)), st)
        return None
    ex.hooks['pseudo_getattr'] = pseudo_getattr

    def setitem(c, i, v, st, fr):
        "record[key] = value for the header entries of the election record: not modelled (only the action list is)"
        if isinstance(c, SRef) and c.cname == RECORD and isinstance(i, SStr) and i.lit is not None and i.lit != 'actions':
            return ex.ok(None, st)
        return None
    ex.hooks['setitem'] = setitem

    def snapshot_abs(n, st):
        from .l2 import mk_abs
        election_facts(ex, st)
        sv = snapvote_fn(ex)
        cid = C.heap_array(st, CAND, 'cid', 'int')
        order = C.heap_array(st, CAND, 'order', 'int')
        vote = C.heap_array(st, CAND, 'vote', 'val')
        mem = lambda t: z3.And(snap_iscopy(t), snap_n(t) == n)       # noqa
        L = mk_abs(C, st, 'ref:' + CAND, mem, select_len(st, 'all'), base='snap', distinct=True, register=False)
        a0 = st.ghost.get('alloc0', st.alloc)
        L.facts.append(lambda t: z3.Implies(mem(t), z3.And(
            inC(snap_src(t)), z3.Not(inC(t)), t >= 1, t < a0, snap_copyof(n, snap_src(t)) == t,
            z3.Select(cid, t) == z3.Select(cid, snap_src(t)), z3.Select(order, t) == z3.Select(order, snap_src(t)),
            z3.Select(vote, t) == sv(n, snap_src(t)))))
        # every candidate of the election has its copy in every saved round; candidate ids are distinct (A-profile)
        st.facts.append((CAND, lambda c: z3.Implies(inC(c), z3.And(mem(snap_copyof(n, c)), snap_src(snap_copyof(n, c)) == c,
                                                                 cand_of_cid(z3.Select(cid, c)) == c))))
        for f in list(L.facts):
            st.facts.append((CAND, f))
        return L

    def iter_abs(it, st, fr):
        if isinstance(it, SRef) and it.cname == CANDS:
            return mk_select(st, 'all', 'none', False)
        if isinstance(it, SRef) and it.cname == 'snap':
            return snapshot_abs(it.t, st)
        if isinstance(it, SRef) and it.cname == 'rounds':
            # the saved rounds themselves, oldest first: element i is the copy saved when round i+1 began
            rnd = C.read_field(st, SRef(repo.resolve(ELEC), it.t), 'round').t
            return SAbs('ref:snap', lambda t: z3.And(t >= 0, t < rnd), z3.If(rnd >= 0, rnd, 0), elem=lambda i: i, pos=lambda t: t,
                        distinct=True, ordered=True, name='E.rounds')
        if isinstance(it, SRef) and it.cname.startswith('seq:'):
            ek = it.cname[4:]
            sid = it.t
            st.assume(seqlen(sid) >= 0)
            posf = z3.Function(fresh_name('seq_pos'), I, I)
            L = SAbs(ek, lambda t: z3.Exists([z3.Int('j!')], z3.And(z3.Int('j!') >= 0, z3.Int('j!') < seqlen(sid),
                                                                   seqelem(sid, z3.Int('j!')) == t)),
                     seqlen(sid), elem=lambda i: seqelem(sid, i), pos=lambda t: posf(t), distinct=False, name='seq')
            L.is_ranking = True
            return L
        return None

    def ledger_write(st, ref, cname, field, v):
        "ledger ghosts follow every write of a tally, the non-transferable total, a ballot's weight or position"
        t = ref.t
        if cname == CAND and field == 'vote' and isinstance(v, SVal):
            election_facts(ex, st)
            old = z3.Select(C.heap_array(st, CAND, 'vote', 'val'), t)
            cur = ghost_get(st, 'T').t
            st.ghost['g:T'] = SVal(z3.If(inC(t), cur + v.t - old, cur))
            cur = ghost_get(st, 'Tm').t
            st.ghost['g:Tm'] = SVal(z3.If(inC(t), cur + v.t - old, cur))
        elif cname == ELEC and field == 'residual' and isinstance(v, SVal):
            # Meek family: Tm = all tallies + the residual of the round
            old = z3.Select(C.heap_array(st, ELEC, 'residual', 'val'), t)
            cur = ghost_get(st, 'Tm').t
            st.ghost['g:Tm'] = SVal(z3.If(t == THE_E, cur + v.t - old, cur))
        elif cname == ELEC and field == 'exhausted' and isinstance(v, SVal):
            old = z3.Select(C.heap_array(st, ELEC, 'exhausted', 'val'), t)
            cur = ghost_get(st, 'T').t
            st.ghost['g:T'] = SVal(z3.If(t == THE_E, cur + v.t - old, cur))
        elif cname == BALLOT and field == 'weight' and isinstance(v, SVal):
            election_facts(ex, st)
            G = ghost_get(st, 'G').t
            top = top_of(C, st, t)
            d = ballot_value(C, st, t, v.t) - ballot_value(C, st, t)
            st.ghost['g:G'] = SGhostArr(z3.If(isBallot(t), z3.Store(G, top, z3.Select(G, top) + d), G))
        elif cname == BALLOT and field == 'index' and isinstance(v, SInt):
            election_facts(ex, st)
            G = ghost_get(st, 'G').t
            top = top_of(C, st, t)
            rk = z3.Select(C.heap_array(st, BALLOT, 'ranking', 'seq:int'), t)
            ntop = z3.If(z3.And(v.t >= 0, v.t < seqlen(rk)), byCid(seqelem(rk, v.t)), z3.IntVal(0))
            st.ghost['g:G'] = SGhostArr(z3.If(isBallot(t), arr_move(G, top, ntop, ballot_value(C, st, t)), G))

    def before_write(st, ref, cname, field, v, kind):
        "ghost counters follow every write of Candidate.state / .pending (card-update lemma)"
        if ledger_on(ex) and (cname, field) in ((CAND, 'vote'), (ELEC, 'exhausted'), (ELEC, 'residual'), (BALLOT, 'weight'),
                                                (BALLOT, 'index')):
            ledger_write(st, ref, cname, field, v)
        if cname != CAND or field not in ('state', 'pending'):
            return
        election_facts(ex, st)
        t = ref.t
        is_ = lambda n: state_is(C, st, t, n)      # noqa
        old_p = pending_true(C, st, t)
        old_e = is_('elected')
        if field == 'state':
            new = v.t
            nw = lambda n: new == str_id(n)     # noqa
            new_p_and_e = z3.And(nw('elected'), old_p)
            for g, n in (('nH', 'hopeful'), ('nE', 'elected'), ('nD', 'defeated'), ('nW', 'withdrawn')):
                cur = ghost_get(st, g).t
                st.ghost['g:' + g] = SInt(z3.If(inC(t), cur + z3.If(nw(n), 1, 0) - z3.If(is_(n), 1, 0), cur))
            cur = ghost_get(st, 'nP').t
            st.ghost['g:nP'] = SInt(z3.If(inC(t), cur + z3.If(new_p_and_e, 1, 0) - z3.If(z3.And(old_e, old_p), 1, 0), cur))
        else:
            if isinstance(v, SNone):
                newp = z3.BoolVal(False)
            elif isinstance(v, SBool):
                newp = v.t
            elif isinstance(v, SOpt):
                newp = z3.And(z3.Not(v.isnone), v.inner.t)
            else:
                raise Unsupported('pending := %r' % (v,))
            cur = ghost_get(st, 'nP').t
            st.ghost['g:nP'] = SInt(z3.If(inC(t), cur + z3.If(z3.And(old_e, newp), 1, 0) - z3.If(z3.And(old_e, old_p), 1, 0), cur))

    def pseudo_len(v, st, fr):
        if v.cname.startswith('seq:'):
            st.assume(seqlen(v.t) >= 0)
            return ex.ok(SInt(seqlen(v.t)), st)
        return None

    def loop_candidates(C_, kind, s_, L, W, pre, fr, i):
        """generic quantified candidates for loops that credit votes through transfer():
        a candidate that is not hopeful keeps its tally (transfer credits hopeful candidates only)"""
        out = []
        if ledger_on(ex) and 'g:Tlog' in W.ghost:
            # loops whose every iteration ends with a recorded step: the total of the previous recorded step is the current total
            out.append(('Tlog == T', lambda st, it: ghost_get(st, 'Tlog').t == ghost_get(st, 'T').t))
        if (CAND, 'vote') in W.heap and (CAND, 'state') not in W.heap:
            varr0 = C.heap_array(pre, CAND, 'vote', 'val')
            sarr0 = C.heap_array(pre, CAND, 'state', 'str')

            def f(st, it):
                c = z3.Int('c!q1')
                v = C.heap_array(st, CAND, 'vote', 'val')
                return z3.ForAll([c], z3.Implies(z3.Select(sarr0, c) != str_id('hopeful'),
                                                 z3.Select(v, c) == z3.Select(varr0, c)))
            out.append(('Q:non-hopeful tallies unchanged', f))
        return out
    # ------------------------------------------------------------------------------------------ vote ledger (C02/C06)
    def sweep_of(s, st, fr):
        """classify a `for` statement over the ballots: ('all', None) for `for b in E.ballots`, ('at', X) for
        `for b in (b for b in E.ballots if b.topRank == X.cid)`, else None"""
        if not isinstance(s, ast.For):
            return None
        it = s.iter
        if isinstance(it, ast.Attribute) and it.attr == 'ballots' and len(s.body) == 1 and isinstance(s.body[0], ast.If) \
                and not s.body[0].orelse:
            # `do(f(b) for b in E.ballots if cond)` (generator evaluated for its effect): the filter is the body's guard
            r = classify_filter(s.body[0].test, st, fr)
            if r is not None:
                return r
        if isinstance(it, ast.Attribute) and it.attr == 'ballots':
            return ('all', None)
        if isinstance(it, ast.GeneratorExp) and len(it.generators) == 1:
            g = it.generators[0]
            if isinstance(g.iter, ast.Attribute) and g.iter.attr == 'ballots' and len(g.ifs) == 1:
                return classify_filter(g.ifs[0], st, fr)
        return None

    def classify_filter(cond, st, fr):
        if True:
            if True:
                if isinstance(cond, ast.Compare) and len(cond.ops) == 1 and isinstance(cond.ops[0], ast.Eq) and \
                        isinstance(cond.left, ast.Attribute) and cond.left.attr == 'topRank' and \
                        isinstance(cond.comparators[0], ast.Attribute) and cond.comparators[0].attr == 'cid':
                    return ('at', cond.comparators[0].value)
                # `b.topRank in cids` with cids a one-element list of ids on this path: the sweep of that one candidate
                if isinstance(cond, ast.Compare) and len(cond.ops) == 1 and isinstance(cond.ops[0], ast.In) and \
                        isinstance(cond.left, ast.Attribute) and cond.left.attr == 'topRank':
                    outs = ex.ev(cond.comparators[0], st.fork(), fr)
                    if len(outs) == 1 and outs[0].kind == 'ok':
                        items = C.concrete_items(outs[0].val, outs[0].st)
                        if items is not None and len(items) == 1 and isinstance(items[0], SInt):
                            return ('at-cid', items[0].t)
                        v_ = outs[0].val
                        # `b.topRank in [c.cid for c in L]`: the sweep of a whole set of candidates (a batch)
                        if isinstance(v_, SAbs) and getattr(v_, 'src', None) is not None and getattr(v_, 'fn', None) is not None \
                                and v_.src.ek == 'ref:' + CAND:
                            probe = z3.Int('c!probe')
                            if v_.fn(probe).eq(z3.Select(C.heap_array(outs[0].st, CAND, 'cid', 'int'), probe)):
                                return ('set', v_.src)
        return None

    def swept_candidate(sw, st, fr):
        "object id of the candidate whose ballots a recognised sweep visits (None when it cannot be named)"
        if sw[0] == 'at-cid':
            election_facts(ex, st)
            cid_facts(st, sw[1])
            st.note_ref(CAND, byCid(sw[1]))
            return byCid(sw[1])
        outs = ex.ev(sw[1], st.fork(), fr)
        if len(outs) != 1 or outs[0].kind != 'ok' or not isinstance(outs[0].val, (SRef, SOpt)):
            return None
        return (outs[0].val.inner if isinstance(outs[0].val, SOpt) else outs[0].val).t

    def ledger_T(st):
        return ghost_get(st, 'T').t

    def ledger_G(st):
        return ghost_get(st, 'G').t

    def same_list(a, b):
        "two abstract collections with the same membership predicate (a comprehension's source wraps the list it iterates)"
        if a is b:
            return True
        try:
            p = z3.Int('c!same')
            return z3.simplify(a.mem(p)).eq(z3.simplify(b.mem(p)))
        except Exception:
            return False

    def set_sum(src, vs):
        """sumB(A) = sum of A[c] over the members c of the candidate list src: an uninterpreted function of the array with its
        update law (sum-update lemma, quantified over arrays); one per list object"""
        cached = getattr(src, '_ledger_sum', None)
        if cached is not None:
            return cached
        AS = z3.ArraySort(I, vs)
        f = z3.Function(fresh_name('sumB'), AS, vs)
        src._ledger_sum = f
        return f

    def set_sum_axiom(src, f, vs):
        A = z3.Const('A!sumB', z3.ArraySort(I, vs))
        i, x = z3.Int('i!sumB'), z3.Const('x!sumB', vs)
        return z3.ForAll([A, i, x], f(z3.Store(A, i, x)) == f(A) + z3.If(src.mem(i), x - z3.Select(A, i), 0),
                         patterns=[f(z3.Store(A, i, x))])

    def set_sweep_invariants(src, pre, visited_at, varr0, T0, G0, vs):
        """sweep over the ballots standing with ANY member of a list of (just excluded) candidates: what is credited is the value
        leaving the members' piles, summed over the list"""
        f = set_sum(src, vs)
        c, b = z3.Int('c!led'), z3.Int('b!led')
        mB = src.mem
        ex.col.assumed.add('ledger: sum over a list of candidates (sumB: update law, all-zero and pointwise-equal lemmas) (model)')

        def ax(st, it):
            st.ghost['ledger_set'] = (src, f, G0, vs)
            return [set_sum_axiom(src, f, vs)]
        invs = [('[C02,C06] ledger: tallies of candidates outside the batch move with the value of the ballots standing with them',
                 lambda st, it: z3.ForAll([c], z3.Implies(z3.And(inC(c), z3.Not(mB(c))),
                     z3.Select(C.heap_array(st, CAND, 'vote', 'val'), c) - z3.Select(ledger_G(st), c) ==
                     z3.Select(varr0, c) - z3.Select(G0, c)))),
                ('[C02,C06] ledger: a ballot already visited no longer stands with a candidate of the batch',
                 lambda st, it: (lambda va: z3.ForAll([b], z3.Implies(z3.And(isBallot(b), va(b)), z3.Not(mB(top_of(C, st, b))))))(visited_at(it))
                 if visited_at(it) is not None else None),
                ('[C02] ledger: no tally decreases while ballots are transferred',
                 lambda st, it: z3.ForAll([c], z3.Select(C.heap_array(st, CAND, 'vote', 'val'), c) >= z3.Select(varr0, c))),
                ('[C02] ledger: what has been credited is exactly the value that left the piles of the batch',
                 lambda st, it: ledger_T(st) - T0 == f(G0) - f(ledger_G(st)))]
        exh0 = z3.Select(C.heap_array(pre, ELEC, 'exhausted', 'val'), THE_E)
        invs.append(('[C02] ledger: the non-transferable total does not decrease while ballots are transferred',
                     lambda st, it: z3.Select(C.heap_array(st, ELEC, 'exhausted', 'val'), THE_E) >= exh0))
        return invs, ax

    def loop_declared(C_, kind, s, L, W, pre, fr, visited_at):
        """ledger invariants of the ballot sweeps (obligations like any declared invariant):
        sweep over all ballots crediting each ballot's value to the candidate it stands with: tallies and total follow the
        partial sums over the ballots visited so far; sweep over the ballots standing with candidate X: the value leaving
        X's pile is what is credited elsewhere (exclusion) / bounds what is credited (surplus)"""
        if not ledger_on(ex) or kind != 'for':
            return [], None
        sw = sweep_of(s, pre, fr)
        ls = pre.ghost.get('ledger_set')
        if sw is None and ls is not None and L is not None and same_list(L, ls[0]) and (CAND, 'vote') in W.heap and (CAND, 'state') not in W.heap:
            # `for c in batch: c.vote = V0` after the sweep of the batch: the total drops by what the members held
            src, f, G0s, vs_ = ls[:4]
            varr_z = C.heap_array(pre, CAND, 'vote', 'val')
            Tz = ledger_T(pre)

            def axz(st, it):
                return [set_sum_axiom(src, f, vs_)]
            return [('[C02] ledger: resetting the tallies of the batch takes off exactly what its members held',
                     lambda st, it: ledger_T(st) == Tz - f(varr_z) + f(C.heap_array(st, CAND, 'vote', 'val')))], axz
        if sw is None or (CAND, 'vote') not in W.heap:
            return [], None
        real = ex.instance == 'real'
        vs = R if real else I
        varr0 = C.heap_array(pre, CAND, 'vote', 'val')
        T0, G0 = ledger_T(pre), ledger_G(pre)
        c = z3.Int('c!led')
        if sw[0] == 'all' and (ELEC, 'residual') in W.heap and (BALLOT, 'index') not in W.heap:
            # Meek-style distribution: every ballot line hands out its whole value (number of papers) to tallies and residual
            msum = z3.Function(fresh_name('msum'), I, vs)
            one = C.const_field(pre, 'V1').t
            marr = C.heap_array(pre, BALLOT, 'multiplier', 'val')
            nB = C.read_field(pre, C.read_field(pre, SRef(repo.resolve(ELEC), THE_E), 'electionProfile'), 'nBallots').t
            from .arith import lift
            total = lift(C, SInt(nB), pre)
            Tm0 = ghost_get(pre, 'Tm').t
            ex.col.assumed.add('ledger: partial sums of the multipliers over E.ballots (msum, definitional); the multipliers of the '
                               'strictly ranked ballots add up to nBallots when no ballot has equal rankings (C15 post-parse invariant) (model)')

            def axm(st, it):
                e = ballots_elem(it)
                return [msum(z3.IntVal(0)) == 0,
                        z3.Implies(z3.And(it >= 0, it < N_BALLOT_OBJS), msum(it + 1) == msum(it) + z3.Select(marr, e)),
                        z3.Implies(z3.Int('n_ballots_equal') == 0, msum(N_BALLOT_OBJS) == total)]
            return [('[C08,C02] ledger: tallies + residual grew by exactly the number of ballot papers distributed so far',
                     lambda st, it: ghost_get(st, 'Tm').t == Tm0 + msum(it))], axm
        if sw[0] == 'all':
            if (BALLOT, 'index') in W.heap or (BALLOT, 'weight') in W.heap:
                return [], None
            # positional partial sums over E.ballots of the (unchanging) ballot values: definitional
            tsum = z3.Function(fresh_name('tsum'), I, vs)
            psum = z3.Function(fresh_name('psum'), I, I, vs)
            x0 = lambda b: ballot_value(C, pre, b)      # noqa
            top0 = lambda b: top_of(C, pre, b)          # noqa
            w0 = C.heap_array(pre, BALLOT, 'weight', 'val')
            one = C.const_field(pre, 'V1').t
            nB = C.read_field(pre, C.read_field(pre, SRef(repo.resolve(ELEC), THE_E), 'electionProfile'), 'nBallots').t
            from .arith import lift
            total = lift(C, SInt(nB), pre)
            ex.col.assumed.add('ledger: partial sums over E.ballots (tsum/psum, definitional); the multipliers of the ballots add up '
                               'to nBallots (C15 post-parse invariant); G[c] is the sum of the values of the ballots standing with c (model)')

            def ax(st, it):
                e = ballots_elem(it)
                b = z3.Int('b!led')
                return [tsum(z3.IntVal(0)) == 0, z3.ForAll([c], psum(c, z3.IntVal(0)) == 0),
                        z3.Implies(z3.And(it >= 0, it < N_BALLOT_OBJS), tsum(it + 1) == tsum(it) + x0(e)),
                        z3.Implies(z3.And(it >= 0, it < N_BALLOT_OBJS),
                                   z3.ForAll([c], psum(c, it + 1) == psum(c, it) + z3.If(top0(e) == c, x0(e), 0))),
                        # closing facts: all ballots at full weight are worth the number of ballots; G is the complete sum
                        z3.Implies(z3.ForAll([b], z3.Implies(isBallot(b), z3.Select(w0, b) == one)), tsum(N_BALLOT_OBJS) == total),
                        z3.ForAll([c], psum(c, N_BALLOT_OBJS) == z3.Select(G0, c))]
            invs = [('[C02] ledger: total credited so far is the value of the ballots visited',
                     lambda st, it: ledger_T(st) == T0 + tsum(it)),
                    ('[C02,C06] ledger: each tally grew by the value of the visited ballots standing with that candidate',
                     lambda st, it: z3.ForAll([c], z3.Select(C.heap_array(st, CAND, 'vote', 'val'), c) ==
                                              z3.Select(varr0, c) + psum(c, it))),
                    ('[C02] ledger: no tally decreases while the ballots are credited',
                     lambda st, it: z3.ForAll([c], z3.Select(C.heap_array(st, CAND, 'vote', 'val'), c) >= z3.Select(varr0, c)))]
            return invs, ax
        if sw[0] == 'set':
            if (BALLOT, 'weight') in W.heap:
                return [], None
            return set_sweep_invariants(sw[1], pre, visited_at, varr0, T0, G0, vs)
        # sweep over the ballots standing with candidate X
        hc = swept_candidate(sw, pre, fr)
        if hc is None:
            return [], None
        v = z3.Select(varr0, hc)
        q = C.read_field(pre, SRef(repo.resolve(ELEC), THE_E), 'quota').t
        sname = z3.Const(fresh_name('surplus'), vs)
        b = z3.Int('b!led')

        reweights = (BALLOT, 'weight') in W.heap
        mc = z3.Function(fresh_name('papers'), I, I)      # number of ballot papers on the lines visited so far (definitional)
        marr_ = C.heap_array(pre, BALLOT, 'multiplier', 'val')
        wh = whole_of_r if real else whole_of

        def ax(st, it):
            out = [sname == v - q]
            if reweights:
                # the re-weighting sites of the body state their bounds in these terms (head values of the ledger included)
                st.ghost['ledger_sweep'] = (hc, v, sname, T0, z3.Select(G0, hc), ledger_T(st), z3.Select(ledger_G(st), hc),
                                            C.heap_array(st, BALLOT, 'weight', 'val'), mc, it)
                if L is not None and L.elem is not None:
                    out += [mc(z3.IntVal(0)) == 0, mc(it) >= 0,
                            z3.Implies(z3.And(it >= 0, it < L.length), mc(it + 1) == mc(it) + wh(z3.Select(marr_, L.elem(it))))]
            return out
        invs = [('[C02,C06] ledger: the other candidates\' tallies move with the value of the ballots standing with them',
                 lambda st, it: z3.ForAll([c], z3.Implies(z3.And(inC(c), c != hc),
                     z3.Select(C.heap_array(st, CAND, 'vote', 'val'), c) - z3.Select(ledger_G(st), c) ==
                     z3.Select(varr0, c) - z3.Select(G0, c)))),
                ('[C02,C06] ledger: a ballot already visited no longer stands with the candidate being swept',
                 lambda st, it: (lambda va: z3.ForAll([b], z3.Implies(z3.And(isBallot(b), va(b)), top_of(C, st, b) != hc)))(visited_at(it))
                 if visited_at(it) is not None else None)]
        invs.append(('[C02] ledger: no tally decreases while ballots are transferred',
                     lambda st, it: z3.ForAll([c], z3.Select(C.heap_array(st, CAND, 'vote', 'val'), c) >= z3.Select(varr0, c))))
        exh0 = z3.Select(C.heap_array(pre, ELEC, 'exhausted', 'val'), THE_E)
        invs.append(('[C02] ledger: the non-transferable total does not decrease while ballots are transferred',
                     lambda st, it: z3.Select(C.heap_array(st, ELEC, 'exhausted', 'val'), THE_E) >= exh0))
        if (BALLOT, 'weight') not in W.heap:
            invs.append(('[C02] ledger: what has been credited is exactly the value that left the swept candidate\'s pile',
                         lambda st, it: ledger_T(st) - T0 == z3.Select(G0, hc) - z3.Select(ledger_G(st), hc)))
        elif real:
            invs.append(('[C02] ledger: credited x tally == value that left the pile x surplus (exact arithmetic)',
                         lambda st, it: (ledger_T(st) - T0) * v == (z3.Select(G0, hc) - z3.Select(ledger_G(st), hc)) * sname))
        else:
            invs.append(('[C02] ledger: credited x tally <= value that left the pile x surplus (no vote is created)',
                         lambda st, it: (ledger_T(st) - T0) * v <= (z3.Select(G0, hc) - z3.Select(ledger_G(st), hc)) * sname))
            if L is not None and L.elem is not None:
                from .arith import SCALE
                invs.append(('[C02] ledger: value that left the pile x surplus - credited x tally <= (tally + one vote) x papers visited',
                             lambda st, it: (z3.Select(G0, hc) - z3.Select(ledger_G(st), hc)) * sname - (ledger_T(st) - T0) * v
                             <= (v + SCALE) * mc(it)))
        invs = [(lab, f) for lab, f in invs]
        return invs, ax
    ex.hooks['loop_declared'] = loop_declared

    def loop_exit(C_, kind, s, L, W, pre, ex_head, fr):
        "empty-sum lemma: once no ballot stands with the swept candidate, the value of its pile is zero"
        if not ledger_on(ex) or kind != 'for':
            return
        fq = fr.func.qualname if fr.func else ''
        if fq.endswith('.distributeVotes') and (CAND, 'vote') in W.heap and isinstance(s.iter, ast.BinOp):
            # Meek distribution, reset loop (`for c in C.hopeful() + C.elected(): c.vote = V0`): zero-sum lemma — once every
            # candidate's tally is zero, tallies + residual is the residual (assert, then use)
            c = z3.Int('c!zs')
            varr = C.heap_array(ex_head, CAND, 'vote', 'val')
            allzero = z3.ForAll([c], z3.Implies(inC(c), z3.Select(varr, c) == 0))
            if not getattr(ex, 'muted', 0):
                ex.col.add('INV', ['C08', 'C02'], fq, 'reset:complete',
                           'after the reset loop every candidate\'s tally is zero (continuing ones were reset, the others hold none)',
                           C.assumptions(ex_head), allzero)
            ex.col.assumed.add('ledger: zero-sum lemma (all tallies zero  =>  tallies + residual == residual) (model)')
            ex_head.assume(ghost_get(ex_head, 'Tm').t == z3.Select(C.heap_array(ex_head, ELEC, 'residual', 'val'), THE_E))
            return
        sw = sweep_of(s, pre, fr)
        ls = pre.ghost.get('ledger_set')
        fname_ = fr.func.qualname if fr.func else '?'
        if sw is not None and sw[0] == 'set':
            src = sw[1]
            vs_ = R if ex.instance == 'real' else I
            cur = ex_head.ghost.get('ledger_set')
            if cur is not None and same_list(cur[0], src):
                src, f = cur[0], cur[1]         # the sum function the sweep's invariants were stated with
            else:
                f = set_sum(src, vs_)
            b, c = z3.Int('b!es'), z3.Int('c!es')
            none_left = z3.ForAll([b], z3.Implies(isBallot(b), z3.Not(src.mem(top_of(C, ex_head, b)))))
            # the members held exactly the value of their piles when the sweep began (they were continuing candidates until then)
            varr0 = C.heap_array(pre, CAND, 'vote', 'val')
            G0 = ledger_G(pre)
            same = z3.ForAll([c], z3.Implies(src.mem(c), z3.Select(varr0, c) == z3.Select(G0, c)))
            if not getattr(ex, 'muted', 0):
                k = C.site_anchor_n(fname_, 'sweep-complete', getattr(s, 'lineno', 0))
                ex.col.add('INV', ['C02', 'C06'], fname_, 'sweep@%d:complete' % k,
                           'when a sweep of the ballots standing with a batch of candidates ends, no ballot stands with any of them',
                           C.assumptions(ex_head), none_left)
                ex.col.add('INV', ['C02', 'C06'], fname_, 'sweep@%d:batch-held-their-piles' % k,
                           'each candidate of the batch held exactly the value of the ballots standing with it when the sweep began',
                           C.assumptions(pre), same)
            Gx = ledger_G(ex_head)
            ex_head.assume(z3.ForAll([c], z3.Implies(src.mem(c), z3.Select(Gx, c) == 0)))     # empty-sum lemma, per member
            ex_head.assume(f(Gx) == 0)                                                           # all-zero lemma
            ex_head.assume(f(varr0) == f(G0))                                                    # pointwise-equal lemma
            ex_head.ghost['ledger_set'] = (src, f, G0, vs_, varr0)
            return
        if sw is None and ls is not None and L is not None and same_list(L, ls[0]) and (CAND, 'vote') in W.heap and (CAND, 'state') not in W.heap:
            src, f = ls[0], ls[1]
            c = z3.Int('c!es')
            varr_x = C.heap_array(ex_head, CAND, 'vote', 'val')
            varr_z = C.heap_array(pre, CAND, 'vote', 'val')
            allzero = z3.ForAll([c], z3.Implies(src.mem(c), z3.Select(varr_x, c) == 0))
            if not getattr(ex, 'muted', 0):
                ex.col.add('INV', ['C02'], fname_, 'batch-reset:complete', 'after the reset loop every candidate of the batch holds no votes',
                           C.assumptions(ex_head), allzero)
            ex_head.assume(f(varr_x) == 0)                                                       # all-zero lemma
            if len(ls) > 4:
                # the members' tallies were not touched between the start of the sweep and the reset (they are not hopeful)
                unch = z3.ForAll([c], z3.Implies(src.mem(c), z3.Select(varr_z, c) == z3.Select(ls[4], c)))
                if not getattr(ex, 'muted', 0):
                    ex.col.add('INV', ['C02'], fname_, 'batch-reset:tallies-untouched',
                               'between the start of the sweep and the reset the tallies of the batch were not touched', C.assumptions(pre), unch)
                ex_head.assume(f(varr_z) == f(ls[4]))                                            # pointwise-equal lemma
            return
        if sw is None or sw[0] not in ('at', 'at-cid'):
            return
        hc = swept_candidate(sw, pre, fr)
        if hc is None:
            return
        b = z3.Int('b!es')
        ex.col.assumed.add('ledger: empty-sum lemma (no ballot stands with c  =>  G[c] == 0) (model)')
        none_left = z3.ForAll([b], z3.Implies(isBallot(b), top_of(C, ex_head, b) != hc))
        if not getattr(ex, 'muted', 0):
            fname = fr.func.qualname if fr.func else '?'
            k = C.site_anchor_n(fname, 'sweep-complete', getattr(s, 'lineno', 0))
            ex.col.add('INV', ['C02', 'C06'], fname, 'sweep@%d:complete' % k,
                       'when a sweep of the ballots standing with a candidate ends, no ballot stands with that candidate any more',
                       C.assumptions(ex_head), none_left)
        # proved above (an obligation of its own), so the lemma's conclusion is available from here on
        ex_head.assume(z3.Select(ledger_G(ex_head), hc) == 0)
        swi = ex_head.ghost.get('ledger_sweep')
        if (BALLOT, 'weight') in W.heap and swi is not None and len(swi) > 9 and swi[0].eq(hc) and L is not None:
            # the surplus sweep that just ended: (tally, surplus, papers re-weighted, total before, total after, pile before)
            v_, s_, T0_, G0h_, mc_ = swi[1], swi[2], swi[3], swi[4], swi[8]
            Gx = z3.Select(ledger_G(ex_head), hc)
            idz = (G0h_ - Gx) * s_ == G0h_ * s_
            if not getattr(ex, 'muted', 0):
                ex.col.add('PRE', ['C02'], fname_, 'sweep@%d:pile-emptied-identity' % C.site_anchor_n(fname_, 'sweep-complete', getattr(s, 'lineno', 0)),
                           'polynomial identity once the pile is empty', [Gx == 0], idz)
            ex_head.assume(idz)
            ex_head.ghost['ledger_rw'] = (v_, s_, mc_(L.length), T0_, ledger_T(ex_head), G0h_)
    ex.hooks['loop_exit'] = loop_exit

    def dynamic_facts(st):
        """counters as cardinalities, on the *current* heap (lemma card_pos: a member of the class makes its
        counter positive)"""
        if not st.ghost.get('election_facts'):
            return []
        c = z3.Int('c!card')
        sarr = C.heap_array(st, CAND, 'state', 'str')
        C.heap_array(st, CAND, 'pending', 'opt:bool')
        pn, pv = st.heap[(CAND, 'pending?')], st.heap[(CAND, 'pending')]
        g = lambda n: ghost_get(st, n).t        # noqa
        is_ = lambda n: z3.Select(sarr, c) == str_id(n)     # noqa
        body = z3.Implies(inC(c), z3.And(
            z3.Implies(is_('hopeful'), g('nH') >= 1), z3.Implies(is_('elected'), g('nE') >= 1),
            z3.Implies(is_('defeated'), g('nD') >= 1), z3.Implies(is_('withdrawn'), g('nW') >= 1),
            z3.Implies(z3.And(is_('elected'), z3.Not(z3.Select(pn, c)), z3.Select(pv, c)), g('nP') >= 1)))
        return [z3.ForAll([c], body), g('nP') <= g('nE')]
    ex.hooks['dynamic_facts'] = dynamic_facts
    ex.hooks['loop_candidates'] = loop_candidates
    ex.hooks['after_havoc'] = lambda st, keys: after_havoc(ex, st, keys)
    ex.hooks['pre_call'] = pre_call
    ex.hooks['model_field'] = model_field
    ex.hooks['iter_abs'] = iter_abs
    ex.hooks['before_write'] = before_write
    ex.hooks['len'] = pseudo_len
    ex.election_facts = lambda st: election_facts(ex, st)


_install0 = install


PURE_CLOSURES = ('hasQuota', 'hasSurplus', 'countComplete')


def install(ex):       # noqa
    _install0(ex)
    install_election(ex)
    # tiny pure closures are executed in line where they are called (their contracts are proved
    # separately); this keeps comprehension filters free of fresh result symbols
    for f in ex.repo.all_functions():
        if f.parent is not None and f.name in PURE_CLOSURES:
            ex.inline_only.add(f.qualname)
    for q in ('exhausted', 'topRank', 'topCand'):
        ex.inline_only.add('droop.election.Election.Ballot.' + q)
    ex.inline_only.add('droop.candidate.Candidate.surplus')
