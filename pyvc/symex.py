"""
PyVC symbolic executor: forward symbolic execution of Python ASTs with path splitting.
Callee = contract when one is declared, else the callee body is executed in line.
"""
import ast
import z3
from .sv import *      # noqa
from .state import State, Out
from .loader import FuncInfo, ClassInfo, ModuleInfo

EXC_TREE = {
    'BaseException': None, 'Exception': 'BaseException', 'KeyboardInterrupt': 'BaseException',
    'StopIteration': 'Exception', 'ArithmeticError': 'Exception', 'ZeroDivisionError': 'ArithmeticError',
    'OverflowError': 'ArithmeticError', 'LookupError': 'Exception', 'KeyError': 'LookupError',
    'IndexError': 'LookupError', 'ValueError': 'Exception', 'TypeError': 'Exception',
    'AssertionError': 'Exception', 'AttributeError': 'Exception', 'NameError': 'Exception',
    'UnboundLocalError': 'NameError', 'NotImplementedError': 'Exception', 'RuntimeError': 'Exception',
    'UsageError': 'Exception', 'ElectionError': 'Exception', 'ElectionProfileError': 'Exception',
    'ArithmeticValuesError': 'Exception', 'UnicodeDecodeError': 'ValueError', 'OSError': 'Exception',
}


def exc_isa(name, base):
    while name is not None:
        if name == base:
            return True
        name = EXC_TREE.get(name)
    return False


BUILTIN_NAMES = {'len', 'min', 'max', 'sum', 'sorted', 'abs', 'int', 'str', 'set', 'list', 'dict', 'tuple',
                 'range', 'divmod', 'next', 'isinstance', 'hasattr', 'getattr', 'bool', 'super', 'print',
                 'zip', 'enumerate', 'frozenset', 'open', 'repr', 'iter', 'any', 'all', 'setattr', 'round', 'float', 'format'}


_cheap_cache = {}


def is_cheap(c):
    "linear, pow10-free constraint?  (feasibility pruning uses only these: an over-approximation)"
    k = c.get_id()
    ent = _cheap_cache.get(k)
    if ent is not None and ent[0].eq(c):        # the cached AST is kept alive, so its id cannot be recycled
        return ent[1]
    r = True
    todo = [c]
    seen = set()
    n = 0
    while todo and r:
        t = todo.pop()
        i = t.get_id()
        if i in seen:
            continue
        seen.add(i)
        n += 1
        if n > 4000:
            r = False
            break
        if z3.is_quantifier(t):
            r = False
            break
        if z3.is_app(t):
            d = t.decl()
            kind = d.kind()
            if kind == z3.Z3_OP_UNINTERPRETED and t.num_args() > 0 and d.name() == 'pow10':
                r = False
                break
            if kind == z3.Z3_OP_MUL:
                nonconst = [a for a in t.children() if not z3.is_int_value(a) and not z3.is_rational_value(a)]
                if len(nonconst) > 1:
                    r = False
                    break
            if kind in (z3.Z3_OP_IDIV, z3.Z3_OP_MOD, z3.Z3_OP_DIV, z3.Z3_OP_REM):
                if not z3.is_int_value(t.arg(1)):
                    r = False
                    break
            todo.extend(t.children())
    _cheap_cache[k] = (c, r)
    return r


class Frame:
    def __init__(self, fid, func, parent_fid, owner, locals_set, module):
        self.fid = fid
        self.func = func            # FuncInfo or None (spec frames)
        self.parent_fid = parent_fid
        self.owner = owner          # ClassInfo (for name mangling)
        self.locals_set = locals_set
        self.module = module        # ModuleInfo


def assigned_names(stmts):
    "names bound by assignment in a function body (not descending into nested defs/classes)"
    out = set()

    def tgt(t):
        if isinstance(t, ast.Name):
            out.add(t.id)
        elif isinstance(t, (ast.Tuple, ast.List)):
            for e in t.elts:
                tgt(e)
        elif isinstance(t, ast.Starred):
            tgt(t.value)

    def rec(ss):
        for s in ss:
            if isinstance(s, (ast.FunctionDef, ast.ClassDef)):
                out.add(s.name)
                continue
            if isinstance(s, ast.Assign):
                for t in s.targets:
                    tgt(t)
            elif isinstance(s, (ast.AugAssign, ast.AnnAssign)):
                tgt(s.target)
            elif isinstance(s, ast.For):
                tgt(s.target)
            elif isinstance(s, (ast.Import, ast.ImportFrom)):
                for al in s.names:
                    out.add((al.asname or al.name).split('.')[0])
            elif isinstance(s, ast.With):
                for it in s.items:
                    if it.optional_vars is not None:
                        tgt(it.optional_vars)
            for fld in ('body', 'orelse', 'finalbody'):
                sub = getattr(s, fld, None)
                if sub and not isinstance(s, (ast.FunctionDef, ast.ClassDef)):
                    rec(sub)
            if isinstance(s, ast.Try):
                for h in s.handlers:
                    if h.name:
                        out.add(h.name)
                    rec(h.body)
            # walrus
            for n in ast.walk(s) if not isinstance(s, (ast.FunctionDef, ast.ClassDef)) else []:
                if isinstance(n, ast.NamedExpr):
                    tgt(n.target)
    rec(stmts)
    return out


class Exec:
    def __init__(self, repo, specs, collector):
        self.repo = repo
        self.specs = specs
        self.col = collector        # obligation collector
        self.frames = {}            # fid -> Frame
        self._fid = 0
        self.solver_checks = 0
        self.spec_mode = None       # None | 'pre' | 'post'
        self.spec_pre = None        # pre-state in post mode
        self.spec_result = None
        self.cur_func = None        # FuncInfo being verified (for obligation ids)
        self.site_counts = {}
        self.max_inline = 12
        self.inline_depth = 0
        self.instance = 'scaled'    # arithmetic interface instance for SVal: 'scaled' | 'real'
        self.hooks = {}             # pluggable: name -> callable (site obligations)
        self.inline_only = set()    # qualnames whose contract is ignored at call sites (body in-lined)
        self._sat_cache = {}
        self.cur_props = None
        self.prune = True
        from . import builtins as _b, calls as _c
        self.B = _b.Builtins(self)
        self.C = _c.Calls(self)

    # ---------------------------------------------------------------- frames and names
    def new_frame(self, st, func, parent_fid, owner, module, locals_set=None):
        self._fid += 1
        fid = self._fid
        if locals_set is None:
            locals_set = set()
            if func is not None:
                a = func.node.args
                for x in a.posonlyargs + a.args + a.kwonlyargs:
                    locals_set.add(x.arg)
                if a.vararg:
                    locals_set.add(a.vararg.arg)
                if a.kwarg:
                    locals_set.add(a.kwarg.arg)
                locals_set |= assigned_names(func.node.body)
        self.frames[fid] = Frame(fid, func, parent_fid, owner, locals_set, module)
        st.envs[fid] = {}
        return self.frames[fid]

    def sat(self, st, extra=None, timeout=250):
        "is the path condition (with extra) satisfiable?  unknown counts as yes"
        if not self.prune:
            return True
        # incremental: the solver of the longest already-loaded prefix of this path condition is reused
        cache = self._sat_cache
        ids = tuple(c.get_id() for c in st.pc)
        ent = cache.get('cur')
        # (the entry keeps its ASTs alive, so an equal id prefix means the very same constraints)
        if ent is not None and len(ent[1]) <= len(ids) and ids[:len(ent[1])] == ent[1]:
            s = ent[0]
            start = len(ent[1])
        else:
            s = z3.Solver()
            set_budget(s, timeout)
            start = 0
        for c in st.pc[start:]:
            if is_cheap(c):
                s.add(c)
        cache['cur'] = (s, ids, list(st.pc))
        self.solver_checks += 1
        if extra is not None:
            s.push()
            s.add(extra)
            r = s.check()
            s.pop()
        else:
            r = s.check()
        return r != z3.unsat

    def lookup(self, name, st, fr):
        "returns SV or None(unbound local) ; raises Unsupported when unknown"
        f = fr
        first = True
        while f is not None:
            if name in f.locals_set:
                env = st.envs.get(f.fid, {})
                if name in env:
                    return env[name]
                if first or True:
                    return None     # unbound local / free variable not yet assigned
            first = False
            f = self.frames.get(f.parent_fid) if f.parent_fid else None
        # spec-level names
        if self.spec_mode is not None or fr.func is None:
            v = self.C.spec_name(name, st, fr)
            if v is not None:
                return v
        return self.global_name(name, fr.module)

    def global_name(self, name, module):
        if module is not None:
            if name in module.classes:
                return SClass(module.classes[name])
            if name in module.functions:
                return SFunc(module.functions[name])
            if name in module.imports:
                return self.import_target(module.imports[name])
            if name in module.globals_:
                v = module.globals_[name]
                try:
                    return self.const(ast.literal_eval(v))
                except Exception:
                    raise Unsupported('module global %s.%s' % (module.name, name))
        if name in EXC_TREE:
            return SExcClass(name)
        if name in BUILTIN_NAMES:
            return SBuiltin(name)
        if name == 'Fraction':
            return SExcClass('Fraction')
        raise Unsupported('name %s' % name)

    def import_target(self, dotted):
        if dotted == 'fractions.Fraction':
            return SExcClass('Fraction')
        r = self.repo.resolve(dotted)
        if isinstance(r, ClassInfo):
            return SClass(r)
        if isinstance(r, FuncInfo):
            return SFunc(r)
        if isinstance(r, ModuleInfo):
            return SModule(r.name, r)
        # name defined by assignment in a module (e.g. droop.electionRuleNames) or stdlib
        parts = dotted.rsplit('.', 1)
        if len(parts) == 2:
            m = self.repo.module(parts[0])
            if m is not None:
                if parts[1] in m.globals_:
                    try:
                        return self.const(ast.literal_eval(m.globals_[parts[1]]))
                    except Exception:
                        pass
                if parts[1] in m.imports:
                    return self.import_target(m.imports[parts[1]])
        if dotted.rsplit('.', 1)[-1] in EXC_TREE:
            return SExcClass(dotted.rsplit('.', 1)[-1])
        return SModule(dotted, None)

    def const(self, v):
        if v is None:
            return NONE
        if isinstance(v, bool):
            return SBool(v)
        if isinstance(v, int):
            return SInt(v)
        if isinstance(v, str):
            return SStr(lit=v)
        if isinstance(v, tuple):
            return STuple([self.const(x) for x in v])
        raise Unsupported('constant %r' % (v,))

    def mangle(self, attr, fr):
        if attr.startswith('__') and not attr.endswith('__') and fr.owner is not None:
            return fr.owner.mangle(attr)
        return attr

    # ---------------------------------------------------------------- outcomes helpers
    def ok(self, v, st):
        return [Out('ok', v, st)]

    def exc(self, name, st, msg=None):
        return [Out('exc', msg, st, exc=name)]

    def split(self, cond, st, k_true, k_false):
        "fork on a z3 Bool"
        outs = []
        if z3.is_true(cond):
            return k_true(st)
        if z3.is_false(cond):
            return k_false(st)
        cs = z3.simplify(cond)
        if z3.is_true(cs):
            return k_true(st)
        if z3.is_false(cs):
            return k_false(st)
        t = self.sat(st, cond)
        f = self.sat(st, z3.Not(cond))
        if t and f and self.spec_mode is not None:
            raise Unsupported('path split inside a specification')
        if t and f:
            s1 = st.fork()
            s1.assume(cond)
            outs += k_true(s1)
            s2 = st
            s2.assume(z3.Not(cond))
            outs += k_false(s2)
        elif t:
            st.assume(cond)
            outs += k_true(st)
        elif f:
            st.assume(z3.Not(cond))
            outs += k_false(st)
        return outs

    def ev_many(self, exprs, st, fr, k):
        if not exprs:
            return k([], st)
        outs = []
        for o in self.ev(exprs[0], st, fr):
            if o.kind != 'ok':
                outs.append(o)
                continue
            outs += self.ev_many(exprs[1:], o.st, fr, lambda vs, s, v0=o.val: k([v0] + vs, s))
        return outs

    def bind(self, outs, k):
        "for every ok outcome continue with k(val, st)"
        res = []
        for o in outs:
            if o.kind != 'ok':
                res.append(o)
            else:
                res += k(o.val, o.st)
        return res

    # ---------------------------------------------------------------- truthiness
    def truth(self, v, st, fr):
        "returns [(z3 Bool, st)] — may need calls (e.g. __bool__)"
        if isinstance(v, SBool):
            return v.t
        if isinstance(v, SInt):
            return v.t != 0
        if isinstance(v, SNone):
            return z3.BoolVal(False)
        if isinstance(v, SStr):
            if v.lit is not None:
                return z3.BoolVal(bool(v.lit))
            return self.C.str_nonempty(v)
        if isinstance(v, SVal):
            return v.t != 0
        if isinstance(v, SOpt):
            return z3.And(z3.Not(v.isnone), self.truth(v.inner, st, fr))
        if isinstance(v, SAny):
            return self.C.any_truth(v)
        if isinstance(v, SList):
            return z3.BoolVal(bool(st.lists[v.lid]))
        if isinstance(v, (STuple, SSet)):
            return z3.BoolVal(bool(v.items))
        if isinstance(v, SAbs):
            return v.length > 0
        if isinstance(v, SRef):
            return self.C.ref_truth(v, st)
        if isinstance(v, (SFunc, SClass, SModule, SBuiltin)):
            return z3.BoolVal(True)
        raise Unsupported('truth of %r' % (v,))

    # ---------------------------------------------------------------- expressions
    def ev(self, e, st, fr):
        m = getattr(self, 'ev_' + type(e).__name__, None)
        if m is None:
            raise Unsupported('expression %s' % type(e).__name__)
        return m(e, st, fr)

    def ev_Constant(self, e, st, fr):
        return self.ok(self.const(e.value), st)

    def ev_Name(self, e, st, fr):
        v = self.lookup(e.id, st, fr)
        if v is None:
            return self.exc('UnboundLocalError', st, e.id)
        return self.ok(v, st)

    def ev_Tuple(self, e, st, fr):
        return self.ev_many(e.elts, st, fr, lambda vs, s: self.ok(STuple(vs), s))

    def ev_List(self, e, st, fr):
        return self.ev_many(e.elts, st, fr, lambda vs, s: self.ok(s.new_list(vs), s))

    def ev_Set(self, e, st, fr):
        return self.ev_many(e.elts, st, fr, lambda vs, s: self.ok(SSet(vs), s))

    def ev_Dict(self, e, st, fr):
        "dict display: {k: v, ...} and {**d, ...}; later entries override earlier ones"
        if not e.keys:
            return self.ok(self.C.new_dict(st), st)
        exprs = [x for pair in zip(e.keys, e.values) for x in pair if x is not None]

        def k(vals, s):
            d = self.C.new_dict(s)
            vi = iter(vals)
            for key in e.keys:
                if key is None:
                    src = next(vi)
                    if not (isinstance(src, SRef) and src.cname == 'dict'):
                        raise Unsupported('** of %r in a dict display' % (src,))
                    outs = self.B.b_dict_update(d, [src], {}, s, fr)
                    s = outs[0].st
                else:
                    kv, vv = next(vi), next(vi)
                    self.C.dict_store(s, d, kv, vv)
            return self.ok(d, s)
        return self.ev_many(exprs, st, fr, k)

    def ev_JoinedStr(self, e, st, fr):
        # f-string: opaque string; evaluate the pieces for their effects / exceptions
        exprs = [v.value for v in e.values if isinstance(v, ast.FormattedValue)]
        return self.ev_many(exprs, st, fr, lambda vs, s: self.ok(SStr(struct=('fstr', vs)), s))

    def ev_Lambda(self, e, st, fr):
        return self.ok(SLambda(e, fr.fid, fr.owner), st)

    def ev_GeneratorExp(self, e, st, fr):
        return self.ok(SGen(e, fr.fid, fr.owner), st)

    def ev_ListComp(self, e, st, fr):
        return self.C.comprehension(e, st, fr, as_list=True)

    def ev_IfExp(self, e, st, fr):
        if self.spec_mode is not None:
            c = self.C.spec_bool(e.test, st, fr)
            cs = z3.simplify(c)
            if z3.is_true(cs):
                return self.ev(e.body, st, fr)
            if z3.is_false(cs):
                return self.ev(e.orelse, st, fr)
            v1 = self.C.spec_eval(e.body, st, fr)
            v2 = self.C.spec_eval(e.orelse, st, fr)
            return self.ok(self.C.ite_sv(c, v1, v2), st)

        def k(c, s):
            b = self.truth(c, s, fr)
            return self.split(b, s, lambda s1: self.ev(e.body, s1, fr), lambda s2: self.ev(e.orelse, s2, fr))
        return self.bind(self.ev(e.test, st, fr), k)

    def ev_BoolOp(self, e, st, fr):
        is_and = isinstance(e.op, ast.And)
        if self.spec_mode is not None:
            bs = [self.C.spec_bool(x, st, fr) for x in e.values]
            return self.ok(SBool(z3.And(*bs) if is_and else z3.Or(*bs)), st)

        def go(i, s):
            def k(v, s1):
                if i == len(e.values) - 1:
                    return self.ok(v, s1)
                b = self.truth(v, s1, fr)
                if is_and:
                    return self.split(b, s1, lambda a: go(i + 1, a), lambda a: self.ok(self.falsy_of(v), a))
                return self.split(b, s1, lambda a: self.ok(self.truthy_of(v), a), lambda a: go(i + 1, a))
            return self.bind(self.ev(e.values[i], s, fr), k)
        outs = go(0, st)
        return self.merge_bools(outs, st)

    def falsy_of(self, v):
        return SBool(False) if isinstance(v, SBool) else v

    def truthy_of(self, v):
        return SBool(True) if isinstance(v, SBool) else v

    def merge_bools(self, outs, st0):
        "no merging (path enumeration); hook kept for future use"
        return outs

    def ev_UnaryOp(self, e, st, fr):
        def k(v, s):
            if isinstance(e.op, ast.Not):
                return self.ok(SBool(z3.Not(self.truth(v, s, fr))), s)
            if isinstance(e.op, ast.USub):
                if isinstance(v, SInt):
                    return self.ok(SInt(-v.t), s)
                if isinstance(v, SVal):
                    return self.ok(SVal(-v.t), s)
                if isinstance(v, SRef):
                    return self.C.call_method(v, '__neg__', [], {}, s, fr, e)
            if isinstance(e.op, ast.UAdd):
                if isinstance(v, (SInt, SVal)):
                    return self.ok(v, s)
                if isinstance(v, SRef):
                    return self.C.call_method(v, '__pos__', [], {}, s, fr, e)
            raise Unsupported('unary %s on %r' % (type(e.op).__name__, v))
        return self.bind(self.ev(e.operand, st, fr), k)

    def ev_BinOp(self, e, st, fr):
        return self.ev_many([e.left, e.right], st, fr,
                            lambda vs, s: self.binop(e.op, vs[0], vs[1], s, fr, e))

    def binop(self, op, a, b, st, fr, node=None):
        on = type(op).__name__
        for which, x in (('a', a), ('b', b)):
            if isinstance(x, SOpt) and isinstance(x.inner, (SVal, SInt)):
                # an optional number as operand: None raises TypeError, otherwise the number itself
                def some(s, which=which, x=x):
                    return self.binop(op, x.inner if which == 'a' else a, x.inner if which == 'b' else b, s, fr, node)
                return self.split(x.isnone, st, lambda s: self.exc('TypeError', s), some)
        if isinstance(a, SInt) and isinstance(b, SInt):
            if on == 'Add':
                return self.ok(SInt(a.t + b.t), st)
            if on == 'Sub':
                return self.ok(SInt(a.t - b.t), st)
            if on == 'Mult':
                return self.ok(SInt(a.t * b.t), st)
            if on in ('FloorDiv', 'Mod'):
                if self.spec_mode is not None:
                    q, r = self.divmod_terms(a.t, b.t, st)
                    return self.ok(SInt(q if on == 'FloorDiv' else r), st)

                def okdiv(s):
                    q, r = self.divmod_terms(a.t, b.t, s)
                    return self.ok(SInt(q if on == 'FloorDiv' else r), s)
                return self.split(b.t == 0, st, lambda s: self.exc('ZeroDivisionError', s), okdiv)
            if on == 'Pow':
                return self.C.int_pow(a, b, st)
            if on == 'Div':
                return self.split(b.t == 0, st, lambda s: self.exc('ZeroDivisionError', s),
                                  lambda s: self.ok(SFloat(a.t, b.t), s))
        if isinstance(a, SStr) or (isinstance(a, SStr) and on == 'Mod'):
            if on == 'Add' and isinstance(b, SStr):
                return self.ok(self.C.str_concat(a, b), st)
            if on == 'Mod':
                return self.C.str_format(a, b, st, fr)
            if on == 'Mult' and isinstance(b, SInt):
                return self.ok(SStr(struct=('rep', a, b)), st)
        if isinstance(a, SVal) or isinstance(b, SVal):
            return self.C.val_binop(on, a, b, st, fr, node)
        if isinstance(a, SRef):
            name = {'Add': '__add__', 'Sub': '__sub__', 'Mult': '__mul__', 'FloorDiv': '__floordiv__',
                    'Div': '__truediv__', 'Mod': '__mod__'}.get(on)
            if name:
                return self.C.call_method(a, name, [b], {}, st, fr, node)
        if isinstance(a, SList) and isinstance(b, SList) and on == 'Add':
            return self.ok(st.new_list(st.lists[a.lid] + st.lists[b.lid]), st)
        if isinstance(a, SAbs) and isinstance(b, SAbs) and on == 'Add':
            return self.ok(self.C.abs_concat(a, b, st), st)
        if isinstance(a, SAbs) and isinstance(b, SList) and not st.lists[b.lid] and on == 'Add':
            return self.ok(a, st)
        if isinstance(a, SList) and not st.lists[a.lid] and isinstance(b, SAbs) and on == 'Add':
            return self.ok(b, st)
        if isinstance(a, SAny) or isinstance(b, SAny):
            return self.C.any_binop(on, a, b, st, fr)
        if isinstance(a, (SSet, SAbs)) and on in ('BitOr', 'Sub', 'BitAnd'):
            return self.C.set_binop(on, a, b, st, fr)
        raise Unsupported('binop %s on %r, %r' % (on, a, b))

    def ev_Compare(self, e, st, fr):
        def go(i, left, s, acc):
            if i == len(e.ops):
                return self.ok(SBool(acc), s)

            def k(right, s1):
                def k2(bv, s2):
                    b = self.truth(bv, s2, fr)
                    if i == len(e.ops) - 1:
                        nb = b if acc is None else z3.And(acc, b)
                        return self.ok(SBool(z3.simplify(nb) if not isinstance(nb, bool) else nb), s2)
                    # chained: short-circuit
                    return self.split(b, s2, lambda a: go(i + 1, right, a, acc),
                                      lambda a: self.ok(SBool(False), a))
                return self.bind(self.compare(e.ops[i], left, right, s1, fr, e), k2)
            return self.bind(self.ev(e.comparators[i], s, fr), k)
        return self.bind(self.ev(e.left, st, fr), lambda l, s: go(0, l, s, None))

    def compare(self, op, a, b, st, fr, node=None):
        on = type(op).__name__
        if on not in ('Is', 'IsNot', 'In', 'NotIn'):
            for which, x in (('a', a), ('b', b)):
                other = b if which == 'a' else a
                if isinstance(x, SOpt) and isinstance(x.inner, (SVal, SInt)) and not isinstance(other, (SNone, SOpt)):
                    # an optional number compared with a number: None is unequal to every number and unordered (TypeError)
                    def some(s, which=which, x=x):
                        return self.compare(op, x.inner if which == 'a' else a, x.inner if which == 'b' else b, s, fr, node)

                    def none(s):
                        if on in ('Eq', 'NotEq'):
                            return self.ok(SBool(on == 'NotEq'), s)
                        return self.exc('TypeError', s)
                    return self.split(x.isnone, st, none, some)
        if on in ('Is', 'IsNot'):
            r = self.C.identical(a, b, st)
            return self.ok(SBool(r if on == 'Is' else z3.Not(r)), st)
        if on in ('In', 'NotIn'):
            outs = self.C.contains(b, a, st, fr)
            if on == 'NotIn':
                outs = self.bind(outs, lambda v, s: self.ok(SBool(z3.Not(v.t)), s))
            return outs
        if isinstance(a, SInt) and isinstance(b, SInt):
            return self.ok(SBool(self.intcmp(on, a.t, b.t)), st)
        if isinstance(a, SBool) and isinstance(b, SBool) and on in ('Eq', 'NotEq'):
            r = a.t == b.t
            return self.ok(SBool(r if on == 'Eq' else z3.Not(r)), st)
        if isinstance(a, SVal) or isinstance(b, SVal):
            return self.C.val_compare(on, a, b, st, fr, node)
        if on in ('Eq', 'NotEq'):
            r = self.C.equal(a, b, st, fr)
            if r is not None:
                return self.bind(r, lambda v, s: self.ok(SBool(v.t if on == 'Eq' else z3.Not(v.t)), s))
        if isinstance(a, SRef):
            name = {'Eq': '__eq__', 'NotEq': '__ne__', 'Lt': '__lt__', 'LtE': '__le__', 'Gt': '__gt__',
                    'GtE': '__ge__'}[on]
            return self.C.call_method(a, name, [b], {}, st, fr, node)
        if isinstance(a, SAny) or isinstance(b, SAny):
            return self.C.any_compare(on, a, b, st, fr)
        raise Unsupported('compare %s on %r, %r' % (on, a, b))

    def divmod_terms(self, a, b, st):
        "Python floor division: a == b*q + r with r between 0 and b (A-int); b != 0 on this path"
        bs = z3.simplify(b)
        if z3.is_int_value(bs) and bs.as_long() != 0:
            return py_floordiv(a, b), py_mod(a, b)
        key = ('divmod', a.get_id(), b.get_id())
        qr = st.ghost.get(key)
        if qr is not None and not (qr[2].eq(a) and qr[3].eq(b)):
            qr = None           # recycled AST id
        if qr is None:
            q = fresh_int('q')
            r = a - b * q
            fact = z3.And(z3.Implies(b > 0, z3.And(r >= 0, r < b)), z3.Implies(b < 0, z3.And(r <= 0, r > b)))
            st.assume(fact)
            if self.spec_pre is not None:
                self.spec_pre.assume(fact)
            qr = (q, r, a, b)
            st.ghost[key] = qr
        return qr[0], qr[1]

    def intcmp(self, on, x, y):
        return {'Eq': lambda: x == y, 'NotEq': lambda: x != y, 'Lt': lambda: x < y, 'LtE': lambda: x <= y,
                'Gt': lambda: x > y, 'GtE': lambda: x >= y}[on]()

    def ev_Attribute(self, e, st, fr):
        return self.bind(self.ev(e.value, st, fr), lambda v, s: self.C.getattr(v, self.mangle(e.attr, fr), s, fr, e))

    def ev_Subscript(self, e, st, fr):
        if isinstance(e.slice, ast.Slice):
            sl = e.slice
            parts = [x for x in (sl.lower, sl.upper, sl.step)]
            exprs = [e.value] + [p for p in parts if p is not None]

            def k(vs, s):
                it = iter(vs[1:])
                lo, hi, stp = [next(it) if p is not None else None for p in parts]
                return self.C.slice(vs[0], lo, hi, stp, s, fr)
            return self.ev_many(exprs, st, fr, k)
        return self.ev_many([e.value, e.slice], st, fr, lambda vs, s: self.C.subscript(vs[0], vs[1], s, fr, e))

    def ev_Call(self, e, st, fr):
        return self.C.ev_call(e, st, fr)

    def ev_Starred(self, e, st, fr):
        raise Unsupported('starred expression')

    # ---------------------------------------------------------------- statements
    def run_block(self, stmts, st, fr):
        "execute statements; returns outcomes with kind ok (fell through), ret, brk, cnt, exc"
        outs = []
        work = [(0, st)]
        while work:
            i, s = work.pop()
            if i == len(stmts):
                outs.append(Out('ok', None, s))
                continue
            for o in self.run_stmt(stmts[i], s, fr):
                if o.kind == 'ok':
                    work.append((i + 1, o.st))
                else:
                    outs.append(o)
        return outs

    def run_stmt(self, s, st, fr):
        m = getattr(self, 'st_' + type(s).__name__, None)
        if m is None:
            raise Unsupported('statement %s' % type(s).__name__)
        st.trace.append(getattr(s, 'lineno', 0))
        return m(s, st, fr)

    def st_Pass(self, s, st, fr):
        return self.ok(None, st)

    def st_Expr(self, s, st, fr):
        if isinstance(s.value, ast.Constant):
            return self.ok(None, st)
        return self.bind(self.ev(s.value, st, fr), lambda v, a: self.ok(None, a))

    def st_Return(self, s, st, fr):
        if s.value is None:
            return [Out('ret', NONE, st)]
        return self.bind(self.ev(s.value, st, fr), lambda v, a: [Out('ret', v, a)])

    def st_Break(self, s, st, fr):
        return [Out('brk', None, st)]

    def st_Continue(self, s, st, fr):
        return [Out('cnt', None, st)]

    def st_FunctionDef(self, s, st, fr):
        info = fr.func.nested().get(s.name) if fr.func is not None else None
        if info is None or info.node is not s:
            info = FuncInfo(s, '%s.<locals>.%s' % (fr.func.qualname if fr.func else '?', s.name),
                            fr.module, fr.owner, fr.func)
        st.envs[fr.fid][s.name] = SFunc(info, parent_fid=fr.fid)
        return self.ok(None, st)

    def st_Import(self, s, st, fr):
        for al in s.names:
            st.envs[fr.fid][(al.asname or al.name).split('.')[0]] = SModule(al.name, self.repo.module(al.name))
        return self.ok(None, st)

    def st_Global(self, s, st, fr):
        raise Unsupported('global statement')

    def st_Nonlocal(self, s, st, fr):
        raise Unsupported('nonlocal statement')

    def st_Assert(self, s, st, fr):
        def k(v, a):
            b = self.truth(v, a, fr)
            return self.split(b, a, lambda x: self.ok(None, x), lambda x: self.exc('AssertionError', x))
        return self.bind(self.ev(s.test, st, fr), k)

    def st_Raise(self, s, st, fr):
        if s.exc is None:
            cur = st.ghost.get('handling')
            if cur is None:
                raise Unsupported('bare raise outside handler')
            return self.exc(cur, st)

        def k(v, a):
            if isinstance(v, SExcClass):
                return self.exc(v.name, a)
            if isinstance(v, SClass):
                return self.exc(v.info.name, a)
            if isinstance(v, SRef) and v.cname.startswith('exc:'):
                return self.exc(v.cname[4:], a)
            raise Unsupported('raise %r' % (v,))
        return self.bind(self.ev(s.exc, st, fr), k)

    def st_If(self, s, st, fr):
        def k(v, a):
            b = self.truth(v, a, fr)
            return self.split(b, a, lambda x: self.run_block(s.body, x, fr),
                              lambda x: self.run_block(s.orelse, x, fr))
        return self.bind(self.ev(s.test, st, fr), k)

    def st_Assign(self, s, st, fr):
        def k(v, a):
            outs = [Out('ok', None, a)]
            for t in s.targets:
                nxt = []
                for o in outs:
                    if o.kind != 'ok':
                        nxt.append(o)
                    else:
                        nxt += self.assign(t, v, o.st, fr)
                outs = nxt
            return outs
        return self.bind(self.ev(s.value, st, fr), k)

    def st_AnnAssign(self, s, st, fr):
        if s.value is None:
            return self.ok(None, st)
        return self.bind(self.ev(s.value, st, fr), lambda v, a: self.assign(s.target, v, a, fr))

    def assign(self, t, v, st, fr):
        if isinstance(t, ast.Name):
            if t.id in fr.locals_set or fr.func is None:
                st.envs[fr.fid][t.id] = v
            else:
                raise Unsupported('assignment to non-local %s' % t.id)
            return self.ok(None, st)
        if isinstance(t, (ast.Tuple, ast.List)):
            items = self.C.unpack(v, len(t.elts), st, fr)
            outs = [Out('ok', None, st)]
            for tt, vv in zip(t.elts, items):
                nxt = []
                for o in outs:
                    nxt += self.assign(tt, vv, o.st, fr) if o.kind == 'ok' else [o]
                outs = nxt
            return outs
        if isinstance(t, ast.Attribute):
            def store(ov, a):
                hk = self.hooks.get('pre_store')
                if hk:
                    hk(ov, self.mangle(t.attr, fr), v, a, fr, t)
                return self.C.setattr(ov, self.mangle(t.attr, fr), v, a, fr, t)
            return self.bind(self.ev(t.value, st, fr), store)
        if isinstance(t, ast.Subscript):
            return self.ev_many([t.value, t.slice], st, fr,
                                lambda vs, a: self.C.setitem(vs[0], vs[1], v, a, fr, t))
        raise Unsupported('assignment target %s' % type(t).__name__)

    def st_AugAssign(self, s, st, fr):
        t = s.target
        if isinstance(t, ast.Name):
            def k(vs, a):
                return self.bind(self.binop(s.op, vs[0], vs[1], a, fr, s), lambda r, b: self.assign(t, r, b, fr))
            return self.ev_many([ast.Name(id=t.id, ctx=ast.Load()), s.value], st, fr, k)
        if isinstance(t, ast.Attribute):
            attr = self.mangle(t.attr, fr)

            def k(ov, a):
                def k2(cur, b):
                    def k3(rhs, c):
                        return self.bind(self.binop(s.op, cur, rhs, c, fr, s),
                                         lambda r, d: self.C.setattr(ov, attr, r, d, fr, t))
                    return self.bind(self.ev(s.value, b, fr), k3)
                return self.bind(self.C.getattr(ov, attr, a, fr, t), k2)
            return self.bind(self.ev(t.value, st, fr), k)
        if isinstance(t, ast.Subscript):
            def k(vs, a):
                def k2(cur, b):
                    def k3(rhs, c):
                        return self.bind(self.binop(s.op, cur, rhs, c, fr, s),
                                         lambda r, d: self.C.setitem(vs[0], vs[1], r, d, fr, t))
                    return self.bind(self.ev(s.value, b, fr), k3)
                return self.bind(self.C.subscript(vs[0], vs[1], a, fr, t), k2)
            return self.ev_many([t.value, t.slice], st, fr, k)
        raise Unsupported('augassign target')

    def st_Try(self, s, st, fr):
        outs = []
        body_outs = self.run_block(s.body, st, fr)
        for o in body_outs:
            if o.kind == 'exc':
                handled = False
                for h in s.handlers:
                    names = self.handler_names(h, o.st, fr)
                    if any(exc_isa(o.exc, n) for n in names):
                        handled = True
                        a = o.st
                        if h.name:
                            a.envs[fr.fid][h.name] = SStr(struct=('exc', o.exc))
                        prev = a.ghost.get('handling')
                        a.ghost['handling'] = o.exc
                        for ho in self.run_block(h.body, a, fr):
                            ho.st.ghost['handling'] = prev
                            if h.name and ho.kind != 'exc':
                                ho.st.envs[fr.fid].pop(h.name, None)
                            outs.append(ho)
                        break
                if not handled:
                    outs.append(o)
            elif o.kind == 'ok' and s.orelse:
                outs += self.run_block(s.orelse, o.st, fr)
            else:
                outs.append(o)
        if s.finalbody:
            res = []
            for o in outs:
                for fo in self.run_block(s.finalbody, o.st, fr):
                    if fo.kind == 'ok':
                        res.append(Out(o.kind, o.val, fo.st, o.exc))
                    else:
                        res.append(fo)
            outs = res
        return outs

    def handler_names(self, h, st, fr):
        if h.type is None:
            return ['BaseException']
        ts = h.type.elts if isinstance(h.type, ast.Tuple) else [h.type]
        names = []
        for t in ts:
            if isinstance(t, ast.Name):
                names.append(t.id)
            elif isinstance(t, ast.Attribute):
                names.append(t.attr)
            else:
                raise Unsupported('except clause')
        return names

    def st_While(self, s, st, fr):
        return self.C.while_loop(s, st, fr)

    def st_For(self, s, st, fr):
        return self.C.for_loop(s, st, fr)

    def st_With(self, s, st, fr):
        raise Unsupported('with statement')

    def st_Delete(self, s, st, fr):
        for t in s.targets:
            if isinstance(t, ast.Name):
                st.envs[fr.fid].pop(t.id, None)
            else:
                raise Unsupported('del target')
        return self.ok(None, st)

    def st_ClassDef(self, s, st, fr):
        raise Unsupported('nested class definition')
