"""
Loops.  Concrete iterables are unrolled.  Symbolic loops are cut:
  - the variables and heap fields the body may write are havocked,
  - declared invariants (sidecar @loops specs) are assumed at the head, checked on entry and
    after the body (INV obligations), the variant is checked (VAR),
  - execution continues after the loop from the havocked state with the exit condition.
"""
import ast
import z3
from .sv import *      # noqa
from .state import Out


def written_names(stmts):
    from .symex import assigned_names
    return assigned_names(stmts)


class Loops:
    UNROLL_MAX = 40
    _genloops = {}

    def concrete_items(self, it, st):
        if isinstance(it, SList):
            return list(st.lists[it.lid])
        if isinstance(it, (STuple, SSet)):
            return list(it.items)
        return None

    def for_loop(self, s, st, fr):
        ex = self.ex

        def k(it, a):
            if isinstance(it, SGen) and all(isinstance(x, ast.Pass) for x in s.body) and not s.orelse:
                # `for _ in (f(x) for x in xs if c): pass`  (common.do): the generator's element expression is
                # evaluated for its effect: the same as `for x in xs: if c: f(x)` in the generator's own scope
                g = it.node.generators[0] if len(it.node.generators) == 1 else None
                if g is not None and not g.is_async:
                    body = [ast.Expr(value=it.node.elt)]
                    for cond in reversed(g.ifs):
                        body = [ast.If(test=cond, body=body, orelse=[])]
                    loop = ast.For(target=g.target, iter=g.iter, body=body, orelse=[], lineno=getattr(s, 'lineno', 0),
                                   col_offset=0)
                    ast.fix_missing_locations(loop)
                    gfr = ex.frames[it.fid]
                    for n in ast.walk(g.target):
                        if isinstance(n, ast.Name):
                            gfr.locals_set = set(gfr.locals_set) | {n.id}
                    key = ('genloop', id(it.node))
                    loop = self._genloops.setdefault(key, loop)
                    return self.for_loop(loop, a, gfr)
            fa = self.filter_append(s, a, fr)
            if fa is not None and isinstance(it, SAbs):
                # `for x in xs: if c: out.append(e)` with `out` a local list that is still empty: out = [e for x in xs if c]
                name, comp = fa
                comp = self._genloops.setdefault(('filterappend', id(s)), comp)
                return ex.bind(ex.ev(comp, a, fr), lambda v, b: ex.assign(ast.Name(id=name, ctx=ast.Store()), v, b, fr))
            items = self.concrete_items(it, a)
            if items is not None:
                if len(items) > self.UNROLL_MAX:
                    raise Unsupported('concrete loop too long')
                return self.unroll(s, items, 0, a, fr)
            return self.for_cut(s, it, a, fr)
        return ex.bind(ex.ev(s.iter, st, fr), k)

    def filter_append(self, s, st, fr):
        if s.orelse or len(s.body) != 1 or not isinstance(s.body[0], ast.If) or s.body[0].orelse:
            return None
        iff = s.body[0]
        if len(iff.body) != 1 or not isinstance(iff.body[0], ast.Expr) or not isinstance(iff.body[0].value, ast.Call):
            return None
        c = iff.body[0].value
        if not (isinstance(c.func, ast.Attribute) and c.func.attr == 'append' and isinstance(c.func.value, ast.Name)
                and len(c.args) == 1 and not c.keywords):
            return None
        name = c.func.value.id
        cur = st.envs.get(fr.fid, {}).get(name)
        if not (isinstance(cur, SList) and st.lists[cur.lid] == []):
            return None
        # the list must not be mentioned by the filter, the element or the iterable
        for part in (iff.test, c.args[0], s.iter):
            if any(isinstance(n, ast.Name) and n.id == name for n in ast.walk(part)):
                return None
        comp = ast.ListComp(elt=c.args[0], generators=[ast.comprehension(target=s.target, iter=s.iter, ifs=[iff.test], is_async=0)])
        ast.copy_location(comp, s)
        ast.fix_missing_locations(comp)
        return name, comp

    def unroll(self, s, items, i, st, fr):
        ex = self.ex
        if i == len(items):
            return ex.run_block(s.orelse, st, fr) if s.orelse else ex.ok(None, st)
        outs = []
        for o0 in ex.assign(s.target, items[i], st, fr):
            if o0.kind != 'ok':
                outs.append(o0)
                continue
            for o in ex.run_block(s.body, o0.st, fr):
                if o.kind in ('ok', 'cnt'):
                    outs += self.unroll(s, items, i + 1, o.st, fr)
                elif o.kind == 'brk':
                    outs.append(Out('ok', None, o.st))
                else:
                    outs.append(o)
        return outs

    def while_loop(self, s, st, fr):
        hk = self.ex.hooks.get('while_loop')
        if hk:
            r = hk(s, st, fr)
            if r is not None:
                return r
        return self.while_cut(s, st, fr)

    def for_cut(self, s, it, st, fr):
        hk = self.ex.hooks.get('for_loop')
        if hk:
            r = hk(s, it, st, fr)
            if r is not None:
                return r
        from .loopcut import for_cut
        return for_cut(self, s, it, st, fr)

    def while_cut(self, s, st, fr):
        from .loopcut import while_cut
        return while_cut(self, s, st, fr)

    def comprehension(self, e, st, fr, as_list):
        from .loopcut import comprehension
        return comprehension(self, e, st, fr, as_list)
