"""
Discharge obligations: z3 first, cvc5 takes z3's unknowns.  Each obligation is serialised to
SMT-LIB 2 and decided in a worker process.
"""
import multiprocessing as mp
import os
import subprocess
import tempfile
import time

Z3_TIMEOUT_MS = int(os.environ.get('PYVC_Z3_TIMEOUT_MS', '10000'))
CVC5_TIMEOUT_MS = int(os.environ.get('PYVC_CVC5_TIMEOUT_MS', '20000'))


def _run_z3(smt2, timeout_ms, want_model, ematch_only=False):
    import z3
    t0 = time.time()
    try:
        s = z3.Solver()
        s.set('timeout', timeout_ms)
        if ematch_only:
            s.set('smt.mbqi', False)        # E-matching only: 'unsat' is definitive, anything else is not
        s.from_string(smt2)
        r = s.check()
        model = None
        if r == z3.sat and want_model:
            m = s.model()
            model = {}
            for d in m.decls():
                if d.arity() == 0:
                    v = m[d]
                    model[d.name()] = str(v)
        return str(r), time.time() - t0, model
    except Exception as e:     # noqa
        return 'error:%s' % e, time.time() - t0, None


def _run_cvc5(smt2, timeout_ms):
    t0 = time.time()
    with tempfile.NamedTemporaryFile('w', suffix='.smt2', delete=False) as f:
        f.write('(set-logic ALL)\n' + smt2 + '\n')
        path = f.name
    try:
        p = subprocess.run(['/usr/bin/cvc5', '--tlimit=%d' % timeout_ms, '--nl-ext-tplanes', path],
                           capture_output=True, text=True, timeout=timeout_ms / 1000 + 5)
        out = (p.stdout or '').strip().splitlines()
        r = out[0] if out else 'unknown'
        if r not in ('sat', 'unsat', 'unknown'):
            r = 'unknown'
    except Exception:
        r = 'unknown'
    finally:
        os.unlink(path)
    return r, time.time() - t0


def _work1(item):
    idx, smt2, must, use_cvc5, both, hinted = item[:6]
    relaxed = item[6] if len(item) > 6 else None
    qf = item[7] if len(item) > 7 else None
    sliced = item[8] if len(item) > 8 else None
    if relaxed is not None:
        r, t, _ = _run_z3(relaxed, 3000, False)
        if r == 'unsat':
            return idx, 'unsat', t, None, 'z3(linear premises)'
    if hinted is not None:
        r, t, model = _run_z3(hinted, 4000, True)
        if r == 'sat':
            return idx, r, t, model, 'z3'
    if must != 'valid' and qf is not None and ('(forall' in smt2 or '(lambda' in smt2):
        # vacuity guards over quantified premises: decide the quantifier-free part first (unsat there is unsat outright;
        # sat there is the accepted answer when the full query stays unknown), then give the full query a short try
        rq, tq, mq = _run_z3(qf, 5000, True)
        if rq == 'unsat':
            return idx, 'unsat', tq, None, 'z3(quantifier-free part)'
        if rq == 'sat':
            r, t, model = _run_z3(smt2, 2000, True)
            if r in ('sat', 'unsat'):
                return idx, r, tq + t, model, 'z3'
            return idx, 'sat', tq + t, mq, 'z3(quantifier-free part)'
    t_pre = 0.0
    if must == 'valid' and ('(forall' in smt2 or '(lambda' in smt2):
        r0, t_pre, _ = _run_z3(smt2, min(Z3_TIMEOUT_MS, 6000), False, ematch_only=True)
        if r0 == 'unsat':
            return idx, 'unsat', t_pre, None, 'z3(e-matching)'
    if must == 'valid' and sliced is not None:
        # the premises in the goal's cone of influence only (a subset: unsat is definitive, anything else is not)
        r0, t0_, _ = _run_z3(sliced, 2 * Z3_TIMEOUT_MS, False, ematch_only=True)
        t_pre += t0_
        if r0 == 'unsat':
            return idx, 'unsat', t_pre, None, 'z3(premises in the cone of influence)'
    r, t, model = _run_z3(smt2, Z3_TIMEOUT_MS, True)
    t += t_pre
    backend = 'z3'
    if (r not in ('sat', 'unsat')) and use_cvc5 and '(lambda' not in smt2:
        r2, t2 = _run_cvc5(smt2, CVC5_TIMEOUT_MS)
        t += t2
        if r2 in ('sat', 'unsat'):
            r, backend = r2, 'cvc5'
    if r not in ('sat', 'unsat') and qf is not None:
        r3, t3, m3 = _run_z3(qf, 5000, True)
        t += t3
        if r3 == 'sat':
            return idx, 'sat', t, m3, 'z3(quantifier-free part)'
    elif both and r in ('sat', 'unsat'):
        r2, t2 = _run_cvc5(smt2, CVC5_TIMEOUT_MS)
        t += t2
        if r2 in ('sat', 'unsat') and r2 != r:
            r, backend = 'disagree', 'z3+cvc5'
        elif r2 == r:
            backend = 'z3+cvc5'
    return idx, r, t, model, backend


SECOND_Z3_MS = int(os.environ.get('PYVC_Z3_SECOND_MS', '120000'))
SECOND_CVC5_MS = int(os.environ.get('PYVC_CVC5_SECOND_MS', '120000'))


def _work(item):
    """first the normal budgets; an obligation still undecided gets one more try with generous budgets, so that a
    verdict does not flip to `unknown` merely because the machine is busy (timeouts are wall-clock)"""
    idx, r, t, model, backend = _work1(item)
    if r in ('sat', 'unsat') or r == 'disagree' or not SECOND_Z3_MS:
        return idx, r, t, model, backend
    smt2, must = item[1], item[2]
    sliced = item[8] if len(item) > 8 else None
    if must == 'valid' and sliced is not None:
        r0, t0_, _ = _run_z3(sliced, SECOND_Z3_MS, False, ematch_only=True)
        t += t0_
        if r0 == 'unsat':
            return idx, 'unsat', t, None, 'z3(premises in the cone of influence, second try)'
    r2, t2, m2 = _run_z3(smt2, SECOND_Z3_MS, True)
    t += t2
    if r2 in ('sat', 'unsat'):
        return idx, r2, t, m2, 'z3(second try)'
    if '(lambda' not in smt2:
        r3, t3 = _run_cvc5(smt2, SECOND_CVC5_MS)
        t += t3
        if r3 in ('sat', 'unsat'):
            return idx, r3, t, None, 'cvc5(second try)'
    return idx, r, t, model, backend


def discharge(obs, jobs=None, cross=False):
    "decide every SMT obligation in obs (in place)"
    todo = [(i, ob) for i, ob in enumerate(obs) if ob.status is None and ob.assumptions is not None]
    items = []
    for i, ob in todo:
        try:
            ob.freeze()
            fz = ob.frozen
            items.append((i, fz['main'], ob.must, True, cross, fz.get('hinted'), fz.get('relaxed'), fz.get('qf'), fz.get('sliced')))
        except Exception as e:     # noqa
            ob.status = 'unknown'
            ob.detail = 'serialisation failed: %s' % e
    jobs = jobs or min(16, max(1, (os.cpu_count() or 2)))
    if len(items) <= 2 or jobs == 1:
        results = [_work(it) for it in items]
    else:
        ctx = mp.get_context('fork')
        with ctx.Pool(jobs) as pool:
            results = pool.map(_work, items, chunksize=max(1, len(items) // (jobs * 4)))
    for idx, r, t, model, backend in results:
        ob = obs[idx]
        ob.time = t
        ob.backend = backend
        if ob.must == 'valid':
            ob.status = {'unsat': 'proved', 'sat': 'refuted'}.get(r, 'unknown')
        elif ob.must == 'sat':
            ob.status = {'sat': 'proved', 'unsat': 'refuted'}.get(r, 'unknown')
        else:   # 'refuted' (canary): must NOT be valid
            ob.status = {'sat': 'proved', 'unsat': 'refuted'}.get(r, 'unknown')
        if r == 'sat':
            ob.model = model
        if r not in ('sat', 'unsat'):
            ob.detail = 'solver answer: %s' % r
    return obs
