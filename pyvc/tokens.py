"""
Token abstraction (A-str): strings that are not literals are ids; their properties are
uninterpreted predicates related by over-approximating axioms.
"""
import z3
from .sv import I, B

ends_with = z3.Function('ends_with', I, I, B)       # (string id, literal id)
starts_with = z3.Function('starts_with', I, I, B)
is_sdigits = z3.Function('is_sdigits', I, B)        # re.match(r'-?\d+$')
