"""
L2: abstract collections, loop cutting, arithmetic interface (filled in later).
"""
from .sv import Unsupported


def _uns(name):
    def f(*a, **k):
        raise Unsupported('L2 feature not available: ' + name)
    return f


abs_comprehension = _uns('abstract comprehension')
for_cut = _uns('symbolic for loop')
while_cut = _uns('symbolic while loop')
abs_minmax = _uns('min/max over abstract collection')
abs_sum = _uns('sum over abstract collection')
abs_sorted = _uns('sorted')
abs_range = _uns('symbolic range')
