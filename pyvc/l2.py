"""
L2: abstract collections (comprehensions, min/max/sum/sorted over them) and loop cutting with
inferred (Houdini) and declared invariants.
"""
import ast
import re
import z3
from .sv import *      # noqa
from .state import State, Out
from .obligation import Collector
from . import sv as _sv


# =============================================================================================
# abstract collections

def elem_sort(C, ek):
    return C.sort_of(ek)


def mk_abs(C, st, ek, mem, length, base='L', distinct=False, src=None, fn=None, register=True):
    sort = elem_sort(C, ek)
    elem = z3.Function(fresh_name(base + '_elem'), I, sort)
    pos = z3.Function(fresh_name(base + '_pos'), sort, I)
    L = SAbs(ek, mem, length, elem=lambda i: elem(i), pos=lambda t: pos(t), distinct=distinct, ordered=True,
             name=base)
    L.src, L.fn = src, fn
    n = length
    f1 = lambda t: z3.Implies(mem(t), z3.And(pos(t) >= 0, pos(t) < n, elem(pos(t)) == t, n >= 1))   # noqa
    L.facts = [f1]
    if register and ek.startswith('ref:'):
        st.facts.append((ek[4:], f1))
    if distinct:
        # the first two positions hold two different members (enough to tell "exactly one" from "two or more")
        e0, e1 = elem(z3.IntVal(0)), elem(z3.IntVal(1))
        st.assume(z3.Implies(n >= 1, z3.And(mem(e0), pos(e0) == 0)))
        st.assume(z3.Implies(n >= 2, z3.And(mem(e1), pos(e1) == 1, e0 != e1)))
        el = elem(n - 1)
        st.assume(z3.Implies(n >= 1, z3.And(mem(el), pos(el) == n - 1)))
    return L


def index_facts(L, i):
    "facts for an index term i with 0 <= i < len"
    e = L.elem(i)
    fs = [L.mem(e)]
    if L.distinct:
        fs.append(L.pos(e) == i)
    return fs


def iter_to_abs(C, it, st, fr):
    ex = C.ex
    if isinstance(it, SAbs):
        return it
    if isinstance(it, SGen):
        outs = gen_to_abs(C, it, st)
        if len(outs) != 1 or outs[0].kind != 'ok':
            raise Unsupported('generator with several outcomes')
        return outs[0].val
    hk = ex.hooks.get('iter_abs')
    if hk:
        r = hk(it, st, fr)
        if r is not None:
            return r
    raise Unsupported('iteration over %r' % (it,))


def gen_to_abs(C, gen, st):
    ex = C.ex
    pfr = ex.frames[gen.fid]
    e = gen.node
    if len(e.generators) != 1:
        raise Unsupported('nested generator')
    g = e.generators[0]

    def k(it, a):
        items = C.concrete_items(it, a)
        if items is not None:
            from .loopcut import concrete_comp
            return concrete_comp(C, e, g, items, a, pfr)
        return abs_comprehension(C, e, g, it, a, pfr, False)
    return ex.bind(ex.ev(g.iter, st, pfr), k)


def new_symbols_in(terms, c0):
    "does any term mention a constant created after counter value c0 (names end in !<n>)?"
    for t in terms:
        if t is None or isinstance(t, bool):
            continue
        fc = free_consts(t)
        if fc is None:
            return True
        for n in fc:
            if '!' in n:
                try:
                    if int(n.rsplit('!', 1)[1]) > c0:
                        return True
                except ValueError:
                    pass
    return False


def pure_eval(C, expr, st, fr, what):
    """evaluate expr in a scratch copy of st; all outcomes must be normal and leave the heap
    unchanged.  returns [(delta_pc, value)]"""
    ex = C.ex
    base = st.fork()
    npc = len(base.pc)
    heap0 = dict(base.heap)
    c0 = _sv._ctr[0]
    outs = ex.ev(expr, base, fr)
    res = []
    for o in outs:
        if o.kind != 'ok':
            if valid(C.assumptions(o.st, force=True), z3.BoolVal(False), 1500):
                continue        # infeasible once the quantified facts are taken into account
            raise Unsupported('%s may raise %s' % (what, o.exc))
        for k, a in o.st.heap.items():
            if k in heap0 and not a.eq(heap0[k]):
                raise Unsupported('%s has a side effect on %s.%s' % (what, k[0], k[1]))
        res.append((o.st.pc[npc:], o.val, o.st))
    fresh = False
    if _sv._ctr[0] != c0:
        terms = []
        if len(res) == 1:
            # a single outcome: constraints added on the way (callee preconditions, allocation frontier) hold
            # unconditionally here and are not part of the value
            res = [([], res[0][1], res[0][2])]
        for dpc, v, _s in res:
            terms += list(dpc)
            for x in (v.items if isinstance(v, STuple) else [v]):
                if hasattr(x, 't'):
                    terms.append(x.t)
                if isinstance(x, SOpt):
                    terms += [x.isnone, getattr(x.inner, 't', None)]
        fresh = new_symbols_in(terms, c0)
    return res, fresh


def abs_comprehension(C, e, g, it, st, fr, as_list):
    ex = C.ex
    L = iter_to_abs(C, it, st, fr)
    names = {n.id for n in ast.walk(g.target) if isinstance(n, ast.Name)}
    pair = (isinstance(g.target, ast.Tuple) and len(g.target.elts) == 2 and hasattr(L, 'pair_of')
            and all(isinstance(t, ast.Name) for t in g.target.elts))
    if not isinstance(g.target, ast.Name) and not pair:
        raise Unsupported('comprehension target')
    tname = g.target.elts[0].id if pair else g.target.id
    xv = z3.Const(fresh_name(tname), elem_sort(C, L.ek))
    xsv = C.wrap(L.ek, xv)
    cfr = ex.new_frame(st, None, fr.fid, fr.owner, fr.module, locals_set=names)
    cfr.func = fr.func
    scratch = st.fork()
    scratch.envs[cfr.fid] = {tname: xsv}
    if pair:
        # iteration over dict.items(): (key, value-at-key)
        scratch.envs[cfr.fid][g.target.elts[1].id] = L.pair_of(xv)
    scratch.assume(L.mem(xv))
    for f in L.facts:
        scratch.assume(f(xv))
    if isinstance(xsv, SRef):
        scratch.note_ref(xsv.cname, xv)
    cond = z3.BoolVal(True)
    for c in g.ifs:
        res, fresh = pure_eval(C, c, scratch, cfr, 'comprehension filter')
        if fresh:
            raise Unsupported('comprehension filter introduces new symbols: ' + ast.unparse(e)[:90])
        parts = []
        for dpc, v, s2 in res:
            parts.append(z3.And(*(list(dpc) + [ex.truth(v, s2, cfr)])))
        cc = z3.Or(*parts) if len(parts) > 1 else parts[0]
        cond = z3.And(cond, cc)
        scratch.assume(cc)
    cond = z3.simplify(cond)
    # element expression
    identity = isinstance(e.elt, ast.Name) and e.elt.id == tname
    mem = lambda t, _c=cond, _x=xv: z3.And(L.mem(t), z3.substitute(_c, (_x, t)))    # noqa
    n = fresh_int('len_comp')
    st.assume(n >= 0)
    st.assume(n <= L.length)
    if z3.is_true(cond):
        st.assume(n == L.length)
    if identity:
        R = mk_abs(C, st, L.ek, mem, n, base='comp', distinct=L.distinct)
        R.facts = R.facts + L.facts
        # non-empty <=> has a member : witness
        w = z3.Const(fresh_name('wit'), elem_sort(C, L.ek))
        st.assume(z3.Implies(n >= 1, mem(w)))
        for f in L.facts:
            st.assume(z3.Implies(n >= 1, f(w)))
        if L.ek.startswith('ref:'):
            st.note_ref(L.ek[4:], w)
        return ex.ok(R, st)
    res, fresh = pure_eval(C, e.elt, scratch, cfr, 'comprehension element')
    if fresh and not isinstance(res[0][1], SStr):
        raise Unsupported('comprehension element introduces new symbols: ' + ast.unparse(e)[:90])
    val = res[0][1]
    for dpc, v2, _s in res[1:]:
        # several outcomes (conditional expressions): merged into one if-then-else value
        val = C.ite_sv(z3.And(*dpc) if dpc else z3.BoolVal(True), v2, val)
    if isinstance(val, SOpt) and isinstance(val.inner, (SInt, SVal)):
        # an optional number per element: usable when it is provably not None for every member (else outside the subset)
        if valid(C.assumptions(scratch, force=True), z3.Not(val.isnone), 1500):
            val = val.inner
        else:
            raise Unsupported('comprehension element may be None: ' + ast.unparse(e)[:90])
    if isinstance(val, (SInt, SVal, SRef, SStr, SBool)):
        vt = val.t
        ek2 = {'int': 'int', 'val': 'val', 'str': 'str', 'bool': 'bool'}.get(val.kind) or ('ref:' + val.cname)
        fn = lambda t, _v=vt, _x=xv: z3.substitute(_v, (_x, t))     # noqa
        src = SAbs(L.ek, mem, n, elem=L.elem, pos=L.pos, distinct=L.distinct, facts=L.facts, name='src')
        y = z3.Const(fresh_name('y'), elem_sort(C, L.ek))
        mem2 = lambda v, _y=y: z3.Exists([_y], z3.And(mem(_y), fn(_y) == v))       # noqa
        R = SAbs(ek2, mem2, n, distinct=False, name='map')
        R.src, R.fn = src, fn
        if src.elem is not None:
            R.elem = lambda i, _f=fn, _s=src: _f(_s.elem(i))      # the i-th element of the mapped sequence
        w = z3.Const(fresh_name('wit'), elem_sort(C, L.ek))
        st.assume(z3.Implies(n >= 1, mem(w)))
        for f in L.facts:
            st.assume(z3.Implies(n >= 1, f(w)))
        if L.ek.startswith('ref:'):
            st.note_ref(L.ek[4:], w)
        R.witness = w
        return ex.ok(R, st)
    raise Unsupported('comprehension element %r' % (val,))


def abs_minmax(C, is_min, arg, st, fr):
    ex = C.ex
    L = iter_to_abs(C, arg, st, fr)
    fn = getattr(L, 'fn', None)
    src = getattr(L, 'src', None)
    if fn is None:
        if L.ek in ('int', 'val'):
            src, fn = L, (lambda t: t)
        else:
            raise Unsupported('min/max over %s elements' % L.ek)
    tolerant = ex.instance == 'guarded' and L.ek == 'val'

    def nonempty(s):
        r = fresh_int('min' if is_min else 'max') if not (L.ek == 'val' and ex.instance == 'real') else fresh_real('m')
        w = z3.Const(fresh_name('argm'), elem_sort(C, src.ek))
        s.assume(src.mem(w))
        s.assume(fn(w) == r)
        for f in src.facts:
            s.assume(f(w))
        fact = (lambda t: z3.Implies(src.mem(t), r <= fn(t))) if is_min else \
               (lambda t: z3.Implies(src.mem(t), r >= fn(t)))
        if tolerant:
            # min/max under the guarded classes' tolerant (non-transitive) comparison: all that is claimed is that
            # the result is the value of a member
            if src.ek.startswith('ref:'):
                s.note_ref(src.ek[4:], w)
            return ex.ok(C.wrap(L.ek, r), s)
        if src.ek.startswith('ref:'):
            s.facts.append((src.ek[4:], fact))
            s.note_ref(src.ek[4:], w)
        return ex.ok(C.wrap(L.ek, r), s)
    return ex.split(L.length >= 1, st, nonempty, lambda s: ex.exc('ValueError', s))


def abs_sum(C, arg, start, st, fr):
    ex = C.ex
    L = iter_to_abs(C, arg, st, fr)
    if L.ek not in ('int', 'val'):
        raise Unsupported('sum over %s' % L.ek)
    real = L.ek == 'val' and ex.instance == 'real'
    total = fresh_real('sum') if real else fresh_int('sum')
    fn = getattr(L, 'fn', None)
    src = getattr(L, 'src', None)
    st.assume(z3.Implies(L.length == 0, total == 0))
    hk = ex.hooks.get('abs_sum')
    if hk:
        hk(L, total, st, fr)
    if fn is not None and src.ek.startswith('ref:'):
        # if every term is >= 0 (asked per known element): total >= each term ; recorded as a ghost for lemmas
        st.ghost.setdefault('sums', [])
        st.ghost['sums'] = st.ghost['sums'] + [(total, src, fn)]
    if isinstance(start, SVal):
        return ex.ok(SVal(start.t + total), st)
    if isinstance(start, SInt):
        if L.ek == 'val':
            return ex.ok(SVal(total), st) if z3.is_int_value(z3.simplify(start.t)) and \
                z3.simplify(start.t).as_long() == 0 else ex.exc('TypeError', st)
        return ex.ok(SInt(start.t + total), st)
    raise Unsupported('sum start %r' % (start,))


def abs_sorted(C, arg, kw, st, fr):
    ex = C.ex
    items = C.concrete_items(arg, st)
    if items is not None and len(items) <= 1:
        return ex.ok(st.new_list(items), st)
    L = iter_to_abs(C, arg, st, fr)
    key = kw.get('key')
    rev = kw.get('reverse', SBool(False))
    R = mk_abs(C, st, L.ek, L.mem, L.length, base='sorted', distinct=L.distinct)
    R.facts = R.facts + L.facts
    R.sort_key, R.sort_rev = key, rev
    hk = ex.hooks.get('sorted')
    if hk:
        hk(R, L, key, rev, st, fr)
    return ex.ok(R, st)


def abs_range(C, args, st):
    ts = [a.t for a in args]
    lo, hi = (z3.IntVal(0), ts[0]) if len(ts) == 1 else (ts[0], ts[1])
    if len(ts) == 3:
        step = z3.simplify(ts[2])
        if not (z3.is_int_value(step) and step.as_long() == -1):
            raise Unsupported('range step')
        # range(a, b, -1): a, a-1, ..., b+1
        n = z3.If(lo > hi, lo - hi, 0)
        return SAbs('int', lambda t: z3.And(t <= lo, t > hi), n, elem=lambda i: lo - i, pos=lambda t: lo - t,
                    distinct=True, ordered=True, name='range')
    n = z3.If(hi > lo, hi - lo, 0)
    return SAbs('int', lambda t: z3.And(t >= lo, t < hi), n, elem=lambda i: lo + i, pos=lambda t: t - lo,
                distinct=True, ordered=True, name='range')


# =============================================================================================
# loop cutting

import os as _os
DEBUG = bool(_os.environ.get('PYVC_DEBUG'))


class Muted:
    "context manager: obligations emitted inside go to a scratch collector"
    def __init__(self, ex):
        self.ex = ex

    def __enter__(self):
        self.saved = self.ex.col
        self.ex.col = Collector()
        self.sites = dict(self.ex.site_counts)
        self.ex.muted = getattr(self.ex, 'muted', 0) + 1
        return self.ex.col

    def __exit__(self, *a):
        self.ex.col = self.saved
        self.ex.site_counts = self.sites
        self.ex.muted -= 1


def fresh_like(C, v, base):
    if isinstance(v, SInt):
        return SInt(fresh_int(base))
    if isinstance(v, SBool):
        return SBool(fresh_bool(base))
    if isinstance(v, SVal):
        return SVal(fresh_real(base) if z3.is_real(v.t) else fresh_int(base))
    if isinstance(v, SStr):
        return SStr(t=fresh_int(base))
    if isinstance(v, SRef):
        return SRef(v.cls, fresh_int(base))
    if isinstance(v, SOpt):
        return SOpt(fresh_bool(base + '_none'), fresh_like(C, v.inner, base))
    if isinstance(v, SAny):
        return SAny(z3.Const(fresh_name(base), C.AnyT))
    if isinstance(v, SNone):
        return v
    if v.kind == 'gharr':
        return type(v)(z3.Const(fresh_name(base), v.t.sort()))
    if isinstance(v, STuple):
        return STuple([fresh_like(C, x, base) for x in v.items])
    if isinstance(v, (SFunc, SClass, SModule, SBuiltin, SLambda)) or v.kind == 'vclass':
        return v
    if isinstance(v, (SAbs, SList, SSet, SGen)):
        # a collection rebuilt inside the loop body: not representable as a loop-carried value; any later *read* of
        # it before it is assigned again is outside the subset (the poison value makes that read Unsupported)
        return SSpecial('loop-carried collection `%s`' % base)
    raise Unsupported('loop-carried variable of kind %s' % v.kind)


def same_sv(a, b):
    if a is b:
        return True
    if type(a) is not type(b):
        return False
    if isinstance(a, (SInt, SBool, SVal, SStr, SAny)) or a.kind == 'gharr':
        return a.t.eq(b.t)
    if isinstance(a, SRef):
        return a.cname == b.cname and a.t.eq(b.t)
    if isinstance(a, SOpt):
        return a.isnone.eq(b.isnone) and same_sv(a.inner, b.inner)
    if isinstance(a, SNone):
        return True
    if isinstance(a, STuple):
        return len(a.items) == len(b.items) and all(same_sv(x, y) for x, y in zip(a.items, b.items))
    if isinstance(a, SList):
        return a.lid == b.lid
    return False


def free_consts(t, limit=20000):
    out = set()
    todo = [t]
    seen = set()
    while todo:
        x = todo.pop()
        i = x.get_id()
        if i in seen:
            continue
        seen.add(i)
        if len(seen) > limit:
            return None
        if z3.is_quantifier(x):
            todo.append(x.body())
            continue
        if z3.is_app(x):
            if x.num_args() == 0 and x.decl().kind() == z3.Z3_OP_UNINTERPRETED:
                out.add(x.decl().name())
            todo.extend(x.children())
    return out


def store_indices(post, base):
    "indices of the Store chain from base to post, or None when post is not such a chain"
    idx = []
    t = post
    n = 0
    while not t.eq(base):
        if z3.is_app(t) and t.decl().kind() == z3.Z3_OP_STORE:
            idx.append(t.arg(1))
            t = t.arg(0)
            n += 1
            if n > 200:
                return None
        else:
            return None
    return idx


class _Elem:
    "marker: written at the loop element itself"
    def eq(self, other):
        return other is self

    def __repr__(self):
        return 'ELEM'


ELEM = _Elem()


class Writes:
    def __init__(self):
        self.heap = set()       # heap keys
        self.at = {}            # heap key -> list of index terms (None: anywhere)
        self.locals = {}        # (fid, name) -> sample SV after
        self.cattr = set()
        self.ghost = set()
        self.init = {}          # heap key first touched inside the loop -> its initial array (deterministic H0_ name)
        self.gsample = {}       # ghost key first touched inside the loop -> a sample value (for its kind)

    def merge(self, other):
        n0 = (len(self.heap), len(self.locals), len(self.cattr), len(self.ghost),
              sum(len(v) if v is not None else -1 for v in self.at.values()))
        for k in other.heap:
            oi = other.at.get(k)
            if k not in self.heap:
                self.at[k] = list(oi) if oi is not None else None
            elif self.at.get(k) is not None:
                if oi is None:
                    self.at[k] = None
                else:
                    for t in oi:
                        if not any((t is u) or (t is not ELEM and u is not ELEM and t.eq(u)) for u in self.at[k]):
                            self.at[k].append(t)
        self.heap |= other.heap
        self.init.update(other.init)
        self.gsample.update(other.gsample)
        self.locals.update(other.locals)
        self.cattr |= other.cattr
        self.ghost |= other.ghost
        return n0 != (len(self.heap), len(self.locals), len(self.cattr), len(self.ghost),
                      sum(len(v) if v is not None else -1 for v in self.at.values()))


def initial_array(k, sort):
    "the initial array of heap key k under the deterministic naming of Calls.heap_array"
    cname, field = k
    tagn = '%s_%s' % (cname.replace('.', '_'), field[:-1] + '_none' if field.endswith('?') else field)
    return z3.Const('H0_' + tagn, sort)


def diff_state(pre, post, live_fids, havoc_names=None, elem_term=None):
    w = Writes()
    for k, a in post.heap.items():
        o = pre.heap.get(k)
        if o is None:
            # first touched inside the loop: written only if it is no longer the initial array.  The initial array has
            # a deterministic name, so it is the array every later first touch would see: the loop head must havoc *it*
            if z3.is_const(a) and a.decl().name().startswith('H0_'):
                continue
            o = initial_array(k, a.sort())
            w.init[k] = o
        if not a.eq(o):
            w.heap.add(k)
            idx = store_indices(a, o)
            if idx is not None and havoc_names is not None:
                ok = []
                for t in idx:
                    if elem_term is not None and t.eq(elem_term):
                        if not any(u is ELEM for u in ok):
                            ok.append(ELEM)
                        continue
                    fc = free_consts(t)
                    if fc is None or (fc & havoc_names):
                        ok = None
                        break
                    ok.append(t)
                w.at[k] = ok
            else:
                w.at[k] = None
    for fid in live_fids:
        e0 = pre.envs.get(fid, {})
        for name, v in post.envs.get(fid, {}).items():
            if name not in e0 or not same_sv(e0[name], v):
                w.locals[(fid, name)] = v
    for k, v in post.cattr.items():
        o = pre.cattr.get(k)
        if o is None or not same_sv(o, v):
            w.cattr.add(k)
    for k, v in post.ghost.items():
        if isinstance(k, str) and k.startswith('g:'):
            o = pre.ghost.get(k)
            if o is None:
                # first touched inside the loop: a write only if it is no longer the initial symbol
                if not (hasattr(v, 't') and z3.is_const(v.t) and v.t.decl().name() == 'g0_' + k[2:]):
                    w.ghost.add(k)
                    w.gsample[k] = v
            elif not same_sv(o, v):
                w.ghost.add(k)
    for lid, items in post.lists.items():
        o = pre.lists.get(lid)
        if o is not None and (len(o) != len(items) or any(not same_sv(x, y) for x, y in zip(o, items))):
            raise Unsupported('concrete list mutated inside a symbolic loop')
    return w


def live_frames(ex, fr):
    fids = []
    f = fr
    while f is not None:
        fids.append(f.fid)
        f = ex.frames.get(f.parent_fid) if f.parent_fid else None
    return fids


def havoc_state(C, st, W, tag, visited=None, consts=None):
    "returns a fork of st with everything in W replaced by fresh symbols"
    s = st.fork()
    names = set()

    def nm(base):
        n = fresh_name(base)
        names.add(n)
        return n
    for k in W.heap:
        old = s.heap.get(k)
        if old is None and k in W.init:
            old = W.init[k]     # first touched inside the loop: materialise the initial array, then havoc it like any other
        if old is not None:
            at = W.at.get(k)
            if at is not None and (visited is not None or not any(t is ELEM for t in at)):
                # written only at loop-invariant objects and/or at the loop element: everything else keeps
                # its value (frame); elements already visited hold what the body left there
                arr = old
                if any(t is ELEM for t in at):
                    # a fresh array described by a fact schema (kept out of the terms: selects stay simple):
                    #   forall y. F[y] == (visited(y) ? value-left-by-the-body : old[y])
                    cval = (consts or {}).get(k)
                    F = z3.Const(nm('Fv_%s_%s' % (k[0].rsplit('.', 1)[-1], k[1])), old.sort())
                    if cval is not None:
                        fact = (lambda y, F=F, o=old, vis=visited, cv=cval:
                                z3.Select(F, y) == z3.If(vis(y), cv, z3.Select(o, y)))
                    else:
                        fact = (lambda y, F=F, o=old, vis=visited:
                                z3.Implies(z3.Not(vis(y)), z3.Select(F, y) == z3.Select(o, y)))
                    s.facts.append((k[0], fact))
                    arr = F
                for t in at:
                    if t is ELEM:
                        continue
                    arr = z3.Store(arr, t, z3.Const(nm('hv_%s' % k[1]), old.sort().range()))
                s.heap[k] = arr
            else:
                s.heap[k] = z3.Const(nm('Hv_%s_%s' % (k[0].rsplit('.', 1)[-1], k[1])), old.sort())
        else:
            s.heap.pop(k, None)
    s.ghost['_havoc_names'] = names
    hk = C.ex.hooks.get('after_havoc')
    if hk:
        hk(s, set(W.heap))
    for (fid, name), sample in W.locals.items():
        cur = s.envs.get(fid, {}).get(name)
        if cur is None:
            continue        # first bound inside the loop: stays unbound at the head
        if cur.kind != sample.kind:
            if isinstance(cur, SNone) and not isinstance(sample, SNone):
                s.envs[fid][name] = SOpt(fresh_bool(name + '_none'), fresh_like(C, sample, name))
                continue
            if isinstance(cur, SOpt):
                s.envs[fid][name] = fresh_like(C, cur, name)
                continue
            raise Unsupported('loop changes the kind of %s (%s -> %s)' % (name, cur.kind, sample.kind))
        s.envs[fid][name] = fresh_like(C, cur, name)
    for k in W.cattr:
        cur = s.cattr.get(k)
        if cur is not None:
            s.cattr[k] = fresh_like(C, cur, k[1])
    for k in W.ghost:
        cur = s.ghost.get(k)
        if cur is None:
            cur = W.gsample.get(k)      # first touched inside the loop: havoc it all the same (else it would read as initial)
        if cur is not None:
            s.ghost[k] = fresh_like(C, cur, k[2:])
    return s


class VisitedFn(SV):
    "spec-only value: the set of loop elements already iterated over (for visited(x) in @loops blocks)"
    kind = 'visitedfn'

    def __init__(self, fn):
        self.fn = fn


class LoopSpec:
    def __init__(self):
        self.invariants = []    # (label, callable(st, fr, i_term or None, pre_state) -> z3 Bool, required)
        self.variant = None     # callable(st, fr) -> z3 Int


def user_loop_spec(C, s, fr, kind):
    "invariants / variant declared for this loop in a sidecar @loops block (anchor = kind#ordinal)"
    ex = C.ex
    spec = LoopSpec()
    func = fr.func
    if func is None:
        return spec, None
    # ordinal of this loop among loops of the same kind in the function (source order)
    nodes = [n for n in ast.walk(func.node) if isinstance(n, ast.While if kind == 'while' else ast.For)]
    nodes.sort(key=lambda n: (n.lineno, n.col_offset))
    # exclude loops of nested defs
    own = []
    nested = set()
    for d in ast.walk(func.node):
        if isinstance(d, ast.FunctionDef) and d is not func.node:
            for n in ast.walk(d):
                nested.add(id(n))
    own = [n for n in nodes if id(n) not in nested]
    try:
        ordinal = own.index(s) + 1
    except ValueError:
        return spec, None
    anchor = '%s#%d' % (kind, ordinal)
    blocks = ex.specs.loops.get(func.qualname, [])
    for node, opts in blocks:
        if opts.get('anchor') == anchor:
            spec.node = node
            spec.opts = opts
            return spec, anchor
    return spec, anchor


def variant_decreases(v0, v1):
    "a single integer term decreases and is bounded below; a list decreases lexicographically, every component bounded below"
    if not isinstance(v0, list):
        return z3.And(v0 >= 0, v1 < v0)
    dec = z3.BoolVal(False)
    for k in range(len(v0) - 1, -1, -1):
        dec = z3.Or(v1[k] < v0[k], z3.And(v1[k] == v0[k], dec))
    return z3.And(*([x >= 0 for x in v0] + [dec]))


def eval_spec_exprs(C, node, st, fr, extra_env):
    """evaluate the statements of a @loops block in the function's frame: returns
    {'invariant': [(label, formula)], 'variant': term or None}"""
    ex = C.ex
    out = {'invariant': [], 'variant': None}
    if node is None:
        return out
    saved = (ex.spec_mode, ex.spec_pre, ex.spec_result, C.ctx)
    names = set(extra_env) | {n.id for n in ast.walk(node) if isinstance(n, ast.Name) and isinstance(n.ctx, ast.Store)}
    sfr = ex.new_frame(st, None, fr.fid, fr.owner, fr.module, locals_set=names)
    sfr.func = None
    st.envs[sfr.fid].update(extra_env)
    ex.spec_mode, ex.spec_pre, ex.spec_result, C.ctx = 'post', extra_env.get('__pre__'), None, None
    try:
        for stt in node.body:
            if isinstance(stt, ast.Expr) and isinstance(stt.value, ast.Call) and isinstance(stt.value.func, ast.Name):
                fn = stt.value.func.id
                if fn == 'invariant':
                    f = C.spec_bool(stt.value.args[0], st, sfr)
                    lab = ast.unparse(stt.value.args[0])
                    for kw in stt.value.keywords:
                        # invariant(..., props=['C06']): the INV obligations also count for those properties
                        if kw.arg == 'props':
                            lab = '[%s] %s' % (','.join(ast.literal_eval(kw.value)), lab)
                    out['invariant'].append((lab, f))
                    continue
                if fn == 'variant':
                    v = C.spec_eval(stt.value.args[0], st, sfr)
                    # variant((a, b)): a lexicographic pair of integers
                    out['variant'] = [x.t for x in v.items] if isinstance(v, STuple) else v.t
                    continue
            if isinstance(stt, ast.Assign):
                v = C.spec_eval(stt.value, st, sfr)
                st.envs[sfr.fid][stt.targets[0].id] = v
                continue
            if isinstance(stt, ast.Expr) and isinstance(stt.value, ast.Constant):
                continue
            raise Unsupported('statement in @loops block')
    finally:
        ex.spec_mode, ex.spec_pre, ex.spec_result, C.ctx = saved
        st.envs.pop(sfr.fid, None)
    return out


def valid_cheap(st, goal, timeout=2000):
    "validity from the linear, quantifier-free part of the path condition only (sound: fewer premises)"
    from .symex import is_cheap
    s = z3.Solver()
    set_budget(s, timeout)
    for a in st.pc:
        if is_cheap(a):
            s.add(a)
        else:
            b = _simplified(a)      # beta-reduces selects over lambda arrays
            if b is not None:
                s.add(b)
    s.add(z3.Not(goal))
    return s.check() == z3.unsat


_simp_cache = {}


def _simplified(a):
    from .symex import is_cheap
    k = a.get_id()
    ent = _simp_cache.get(k)
    if ent is not None and ent[0].eq(a):
        return ent[1]
    r = None
    if not z3.is_quantifier(a):
        try:
            b = z3.simplify(a)
            if is_cheap(b):
                r = b
        except Exception:
            r = None
    _simp_cache[k] = (a, r)
    return r


def valid(asm, goal, timeout=3000):
    for ematch in (True, False):
        s = z3.Solver()
        set_budget(s, timeout)
        if ematch:
            s.set('smt.mbqi', False)
        for a in asm:
            s.add(a)
        s.add(z3.Not(goal))
        if s.check() == z3.unsat:
            return True
    return False


def discover_writes(C, run_body, make_head, pre, fr, it_name, elem_term=None, rounds=4):
    ex = C.ex
    live = live_frames(ex, fr)
    W = Writes()
    for _ in range(rounds):
        head = make_head(W)
        h0 = head.fork()
        with Muted(ex):
            outs = run_body(head)
        changed = False
        hn = set(h0.ghost.get('_havoc_names', set())) | {str(it_name)}
        for (fid, name), _v in W.locals.items():
            cur = h0.envs.get(fid, {}).get(name)
            if cur is not None and hasattr(cur, 't'):
                fc = free_consts(cur.t)
                hn |= (fc or set())
        for o in outs:
            if o.kind in ('ok', 'cnt', 'brk', 'ret', 'exc'):
                changed |= W.merge(diff_state(h0, o.st, live, hn, elem_term))
        if not changed:
            return W
    return W


def elem_constants(C, W, run_body, make_head, elem_term):
    "fields written at the loop element whose final value is the same literal on every path of the body"
    ex = C.ex
    keys = [k for k, at in W.at.items() if at is not None and any(t is ELEM for t in at)]
    if not keys:
        return {}
    head = make_head(W)
    with Muted(ex):
        outs = run_body(head)
    res = {}
    oks = [o for o in outs if o.kind in ('ok', 'cnt')]
    for k in keys:
        val = None
        ok = bool(oks)
        for o in oks:
            arr = o.st.heap.get(k)
            if arr is None:
                ok = False
                break
            v = z3.simplify(z3.Select(arr, elem_term))
            if not (z3.is_int_value(v) or z3.is_true(v) or z3.is_false(v) or z3.is_rational_value(v)):
                # not syntactically a literal (e.g. written through a callee's contract): ask for the value
                cand = val if val is not None else model_value(o.st, v)
                if cand is None or not valid_cheap(o.st, v == cand):
                    ok = False
                    break
                v = cand
            if val is None:
                val = v
            elif not val.eq(v):
                ok = False
                break
        if ok and val is not None:
            res[k] = val
    return res


def model_value(st, term):
    "a value of term in some model of the cheap part of the path condition (a *candidate*, to be validated)"
    from .symex import is_cheap
    s = z3.Solver()
    set_budget(s, 1000)
    for a in st.pc:
        if is_cheap(a):
            s.add(a)
        else:
            b = _simplified(a)
            if b is not None:
                s.add(b)
    if s.check() != z3.sat:
        return None
    try:
        v = s.model().eval(term, model_completion=True)
    except Exception:
        return None
    if z3.is_int_value(v) or z3.is_true(v) or z3.is_false(v) or z3.is_rational_value(v):
        return v
    return None


def counter_candidates(C, W, pre, head_of):
    """Houdini pool over integer ghosts / int locals written in the loop:
    g == g_pre + d*i (d in -1,0,1), pair and triple sums constant, g >= g_pre, g <= g_pre"""
    cands = []
    names = sorted(W.ghost)
    get = lambda st, k: st.ghost[k].t      # noqa

    def mk(label, f):
        cands.append((label, f))
    ints = [k for k in names if isinstance(pre.ghost.get(k), SInt)]
    for k in ints:
        for d in (-1, 0, 1):
            mk('%s == old + %d*i' % (k[2:], d),
               lambda st, i, k=k, d=d: (get(st, k) == get(pre, k) + d * i) if i is not None else None)
        mk('%s >= old' % k[2:], lambda st, i, k=k: get(st, k) >= get(pre, k))
        mk('%s <= old' % k[2:], lambda st, i, k=k: get(st, k) <= get(pre, k))
    import itertools
    for r in (2, 3):
        for ks in itertools.combinations(ints, r):
            mk('+'.join(k[2:] for k in ks) + ' constant',
               lambda st, i, ks=ks: sum(get(st, k) for k in ks) == sum(get(pre, k) for k in ks))
    return cands


def cut_loop(C, kind, s, st, fr, L=None):
    ex = C.ex
    pre = st.fork()
    live = live_frames(ex, fr)
    uspec, anchor = user_loop_spec(C, s, fr, kind)
    unode = getattr(uspec, 'node', None)
    fname = fr.func.qualname if fr.func else '?'
    props = ex.cur_props or []
    i = fresh_int('it')        # iteration index (for loops: position; while loops: count)

    def bind_target(h):
        "for loops: bind the loop variable to the i-th element; returns outcomes"
        if kind != 'for':
            return [Out('ok', None, h)]
        h.assume(i >= 0)
        h.assume(i < L.length)
        e = L.elem(i)
        for f in index_facts(L, i):
            h.assume(f)
        for f in L.facts:
            h.assume(f(e))
        x = C.wrap(L.ek, e)
        if isinstance(x, SRef):
            h.note_ref(x.cname, e)
            if isinstance(x.cls, str) is False:
                h.assume(e >= 1)
            # what the fact schemas say about this element goes into the path condition itself
            for cname, fn in h.facts:
                if cname == x.cname:
                    f = fn(e)
                    if f is not None:
                        h.assume(f)
        return ex.assign(s.target, x, h, fr)

    def guard_outs(h):
        "while loops: evaluate the guard; returns [(cond z3, state)] pairs via outcomes"
        return ex.ev(s.test, h, fr)

    def run_body(h):
        outs = []
        if kind == 'for':
            for o0 in bind_target(h):
                if o0.kind != 'ok':
                    outs.append(o0)
                else:
                    outs += ex.run_block(s.body, o0.st, fr)
            return outs
        for og in guard_outs(h):
            if og.kind != 'ok':
                outs.append(og)
                continue
            b = ex.truth(og.val, og.st, fr)
            if not ex.sat(og.st, b):
                continue
            og.st.assume(b)
            outs += ex.run_block(s.body, og.st, fr)
        return outs

    elem_term = L.elem(i) if (kind == 'for' and L.distinct and L.pos is not None) else None
    visited_at = (lambda idx: (lambda y: z3.And(L.mem(y), L.pos(y) < idx))) if elem_term is not None else (lambda idx: None)
    consts = {}

    axioms = [None]     # callable(state, it) -> [z3]: definitional facts of ghost functions introduced for this loop

    def make_head(W, invs=(), with_i=True):
        h = havoc_state(C, pre, W, 'head', visited_at(i), consts)
        h.assume(i >= 0)
        if axioms[0] is not None:
            for a in axioms[0](h, i):
                h.assume(a)
        for lab, f in invs:
            t = f(h, i)
            if t is not None:
                h.assume(t)
        return h

    user = []

    def spec_env(it):
        env = {'__pre__': pre, 'it': SInt(it)}
        va = visited_at(it)
        if va is not None:
            env['__visited__'] = VisitedFn(va)
        return env

    def user_invs(state, it):
        if unode is None:
            return []
        env = {'__pre__': pre}
        if it is not None:
            env['it'] = SInt(it)
            va = visited_at(it)
            if va is not None:
                env['__visited__'] = VisitedFn(va)
        return eval_spec_exprs(C, unode, state.fork(), fr, env)['invariant']
    if unode is not None:
        for idx, (lab, _) in enumerate(user_invs(pre, z3.IntVal(0))):
            user.append((lab, lambda st_, it, idx=idx: user_invs(st_, it)[idx][1]))

    # ---- 1. what does the body write?
    W = discover_writes(C, run_body, lambda w: make_head(w, user), pre, fr, i, elem_term)
    if elem_term is not None:
        consts.update(elem_constants(C, W, run_body, make_head, elem_term))
    # invariants attached generically to loops of a recognised kind (e.g. ballot sweeps: the vote ledger); they are
    # obligations exactly like the invariants of a @loops block
    hk = ex.hooks.get('loop_declared')
    if hk:
        more, ax = hk(C, kind, s, L, W, pre, fr, visited_at)
        user += more
        axioms[0] = ax

    # ---- 2. candidate invariants
    cands = counter_candidates(C, W, pre, None)
    hk = ex.hooks.get('loop_candidates')
    if hk:
        cands += hk(C, kind, s, L, W, pre, fr, i)
    # ---- 3. Houdini over auto candidates (user invariants are assumed and checked as obligations)
    alive = list(cands) if not _os.environ.get('PYVC_NO_HOUDINI') else []
    alive = [(lab, f) for lab, f in alive if _holds_init(C, pre, f, lab.startswith('Q:'))]
    for _round in range(6):
        if not alive:
            break       # nothing to infer: no exploratory run needed
        head = make_head(W, alive + user)
        with Muted(ex):
            outs = run_body(head)
        dropped = False
        keep = []
        for lab, f in alive:
            ok = True
            full = lab.startswith('Q:')
            for o in outs:
                if o.kind in ('ok', 'cnt'):
                    t = f(o.st, i + 1)
                    if t is None:
                        continue
                    if not (valid(C.assumptions(o.st, force=True), t, 1500) if full else valid_cheap(o.st, t)):
                        ok = False
                        if DEBUG:
                            print('HOUDINI drop', anchor, lab, 'at trace', o.st.trace[-4:])
                            if _os.environ.get('PYVC_DEBUG') == lab:
                                from .symex import is_cheap
                                print('   goal', t)
                                for a in o.st.pc:
                                    if is_cheap(a) and ('nD' in str(a) or 'it!' in str(a) or 'len' in str(a)):
                                        print('   pc', str(a)[:200])
                        break
            if ok:
                keep.append((lab, f))
            else:
                dropped = True
        alive = keep
        if not dropped:
            break

    # ---- 4. the real run
    results = []
    # user invariants: initiation
    def inv_props(lab):
        m = re.match(r'\[([A-Z0-9,]+)\] ', lab)
        return sorted(set(props) | set(m.group(1).split(','))) if m else props
    pre_ax = pre
    if axioms[0] is not None and user:
        pre_ax = pre.fork()
        for a in axioms[0](pre_ax, z3.IntVal(0)):
            pre_ax.assume(a)
    for lab, f in user:
        t = f(pre_ax, z3.IntVal(0))
        ex.col.add('INV', inv_props(lab), fname, '%s:init:%s' % (anchor, lab[:60]), 'loop invariant holds on entry: ' + lab,
                   C.assumptions(pre_ax), t)
    head = make_head(W, alive + user)
    v0 = None
    if unode is not None:
        v0 = eval_spec_exprs(C, unode, head.fork(), fr, spec_env(i))['variant']
    outs = run_body(head)
    exits = []
    for o in outs:
        if o.kind in ('ok', 'cnt'):
            for lab, f in user:
                t = f(o.st, i + 1)
                ex.col.add('INV', inv_props(lab), fname, '%s:pres:%s' % (anchor, lab[:60]),
                           'loop invariant preserved: ' + lab, C.assumptions(o.st), t)
            if v0 is not None:
                v1 = eval_spec_exprs(C, unode, o.st.fork(), fr, spec_env(i + 1))['variant']
                ex.col.add('VAR', props, fname, '%s:variant' % anchor, 'variant decreases and is bounded below',
                           C.assumptions(o.st), variant_decreases(v0, v1))
        elif o.kind == 'brk':
            exits.append(Out('ok', None, o.st))
        else:
            results.append(o)
    # ---- 5. exit state
    ex_head = havoc_state(C, pre, W, 'exit', visited_at(i), consts)
    if kind == 'for':
        ex_head.assume(i == L.length)
    else:
        ex_head.assume(i >= 0)
    if axioms[0] is not None:
        for a in axioms[0](ex_head, i):
            ex_head.assume(a)
    for lab, f in alive + user:
        t = f(ex_head, i)
        if t is not None:
            ex_head.assume(t)
    hk = ex.hooks.get('loop_exit')
    if hk:
        hk(C, kind, s, L, W, pre, ex_head, fr)
    if kind == 'while':
        for og in guard_outs(ex_head):
            if og.kind != 'ok':
                results.append(og)
                continue
            b = ex.truth(og.val, og.st, fr)
            if ex.sat(og.st, z3.Not(b)):
                og.st.assume(z3.Not(b))
                exits.append(Out('ok', None, og.st)) if not s.orelse else exits.extend(
                    ex.run_block(s.orelse, og.st, fr))
    else:
        if s.orelse:
            exits.extend(ex.run_block(s.orelse, ex_head, fr))
        else:
            exits.append(Out('ok', None, ex_head))
    ex.col.notes.append({'loop': '%s %s' % (fname, anchor), 'inferred': [lab for lab, _ in alive],
                         'ghost_written': sorted(W.ghost), 'n_candidates': len(cands),
                         'declared': [lab for lab, _ in user], 'writes_heap': sorted('%s.%s' % k for k in W.heap)})
    return results + exits


def _holds_init(C, pre, f, full=False):
    t = f(pre, z3.IntVal(0))
    if t is None:
        return True
    if full:
        return valid(C.assumptions(pre, force=True), t, 1500)
    return valid_cheap(pre, t)


def for_cut(C, s, it, st, fr):
    L = iter_to_abs(C, it, st, fr)
    if not s.orelse and valid_cheap(st, L.length == 0):
        return [Out('ok', None, st)]        # provably empty collection: the body never runs
    return cut_loop(C, 'for', s, st, fr, L)


def while_cut(C, s, st, fr):
    return cut_loop(C, 'while', s, st, fr, None)
