"""
Heap access, attribute lookup, call dispatch (contract or in-line body), construction.
"""
import ast
import z3
from .sv import *      # noqa
from .state import State, Out
from .loader import FuncInfo, ClassInfo, ModuleInfo
from .specrt import SpecRT
from .strings import Strings
from .loops import Loops
from .anyval import AnyVals
from .absseq import AbsSeqs


class Calls(SpecRT, Strings, Loops, AnyVals, AbsSeqs):
    def __init__(self, ex):
        self.ex = ex
        SpecRT.init(self)

    # ------------------------------------------------------------------ schemas, sorts
    def schema(self, cname):
        return self.ex.specs.schemas.get(cname)

    def field_kind(self, cname, field):
        sc = self.schema(cname)
        if sc is not None and field in sc.fields:
            return sc.fields[field]
        # inherited schema
        info = self.ex.repo.resolve(cname)
        if isinstance(info, ClassInfo):
            for b in self.base_classes(info):
                k = self.field_kind(b.qualname, field)
                if k is not None:
                    return k
        return None

    def sort_of(self, kind):
        if kind in ('int', 'str') or kind.startswith('ref:') or kind.startswith('seq:'):
            return I
        if kind == 'bool':
            return B
        if kind == 'val':
            return R if self.ex.instance == 'real' else I
        if kind == 'real':
            return R
        if kind == 'any':
            return self.AnyT
        raise Unsupported('sort of kind %s' % kind)

    def wrap(self, kind, t, isnone=None):
        if kind.startswith('opt:'):
            return SOpt(isnone, self.wrap(kind[4:], t))
        if kind == 'int':
            return SInt(t)
        if kind == 'bool':
            return SBool(t)
        if kind == 'str':
            if z3.is_int_value(t) and t.as_long() in STR.rev:
                return SStr(lit=STR.rev[t.as_long()])
            return SStr(t=t)
        if kind in ('val', 'real'):
            return SVal(t)
        if kind == 'any':
            return SAny(t)
        if kind.startswith('ref:'):
            cn = kind[4:]
            info = self.ex.repo.resolve(cn)
            return SRef(info if isinstance(info, ClassInfo) else cn, t)
        if kind.startswith('seq:'):
            return SRef(kind, t)
        raise Unsupported('wrap kind %s' % kind)

    def unwrap(self, kind, v):
        "SV -> z3 term of the kind's sort (raises Unsupported on a kind mismatch)"
        if kind == 'int' and isinstance(v, SInt):
            return v.t
        if kind == 'int' and isinstance(v, SBool):
            return z3.If(v.t, 1, 0)
        if kind == 'bool' and isinstance(v, SBool):
            return v.t
        if kind == 'str' and isinstance(v, SStr):
            return v.t
        if kind in ('val', 'real') and isinstance(v, SVal):
            return v.t
        if kind == 'any':
            return self.to_any(v).t
        if kind.startswith('ref:') and isinstance(v, SRef):
            return v.t
        if kind.startswith('seq:') and isinstance(v, SRef):
            return v.t
        raise Unsupported('store %r into field of kind %s' % (v, kind))

    def fresh_of_kind(self, kind, base='v'):
        if kind.startswith('opt:'):
            return SOpt(fresh_bool(base + '_none'), self.fresh_of_kind(kind[4:], base))
        if kind == 'none':
            return NONE
        if kind == 'bool':
            return SBool(fresh_bool(base))
        if (kind == 'val' and self.ex.instance == 'real') or kind == 'real':
            return SVal(fresh_real(base))
        if kind == 'any':
            return SAny(z3.Const(fresh_name(base), self.AnyT))
        return self.wrap(kind, fresh_int(base))

    def heap_array(self, st, cname, field, kind):
        key = (cname, field)
        if key not in st.heap:
            # the initial array of a field has a deterministic name: every state descends from one
            # initial state, so a field first touched on different paths denotes the same initial heap
            tagn = '%s_%s' % (cname.replace('.', '_'), field)
            if kind.startswith('opt:'):
                st.heap[key] = z3.Array('H0_' + tagn, I, self.sort_of(kind[4:]))
                st.heap[(cname, field + '?')] = z3.Array('H0_' + tagn + '_none', I, B)
            else:
                st.heap[key] = z3.Array('H0_' + tagn, I, self.sort_of(kind))
        return st.heap[key]

    def read_field(self, st, ref, field, kind=None):
        cname = self.field_owner(ref.cname, field)
        kind = kind or self.field_kind(cname, field)
        if kind == 'vclass':
            from .arith import VCLASS
            return VCLASS
        if kind.startswith('const:'):
            return self.const_field(st, kind[6:])
        if kind.startswith('model:'):
            hk = self.ex.hooks.get('model_field')
            r = hk(st, ref, field, kind) if hk else None
            if r is None:
                raise Unsupported('modelled field %s.%s' % (cname, field))
            return r
        arr = self.heap_array(st, cname, field, kind)
        t = z3.Select(arr, ref.t)
        if kind.startswith('opt:'):
            n = z3.Select(st.heap[(cname, field + '?')], ref.t)
            return SOpt(n, self.wrap(kind[4:], t))
        if kind == 'ref:dict':
            # heap closure: a dictionary reached through a field exists (its id is below the allocation frontier),
            # so it is never the same object as one created later
            st.assume(z3.And(t >= 1, t < st.alloc))
        return self.wrap(kind, t)

    def write_field(self, st, ref, field, v, kind=None):
        cname = self.field_owner(ref.cname, field)
        kind = kind or self.field_kind(cname, field)
        if kind == 'vclass' or kind.startswith('const:') or kind.startswith('model:'):
            hk = self.ex.hooks.get('model_write')
            if hk and hk(st, ref, field, v, kind):
                return
            raise Unsupported('store to modelled field %s.%s' % (cname, field))
        arr = self.heap_array(st, cname, field, kind)
        hk0 = self.ex.hooks.get('before_write')
        if hk0 and not getattr(self, '_in_havoc', False):
            hk0(st, ref, cname, field, v, kind)
        if kind.startswith('opt:'):
            narr = st.heap[(cname, field + '?')]
            if isinstance(v, SNone):
                st.heap[(cname, field + '?')] = z3.Store(narr, ref.t, z3.BoolVal(True))
            elif isinstance(v, SOpt):
                st.heap[(cname, field + '?')] = z3.Store(narr, ref.t, v.isnone)
                st.heap[(cname, field)] = z3.Store(arr, ref.t, self.unwrap(kind[4:], v.inner))
            else:
                st.heap[(cname, field + '?')] = z3.Store(narr, ref.t, z3.BoolVal(False))
                st.heap[(cname, field)] = z3.Store(arr, ref.t, self.unwrap(kind[4:], v))
        else:
            st.heap[(cname, field)] = z3.Store(arr, ref.t, self.unwrap(kind, v))
        hk = self.ex.hooks.get('on_write')
        if hk:
            hk(st, ref, field, v)

    def const_field(self, st, what):
        from .arith import SCALE, scale_facts
        if what == 'V0':
            return SVal(z3.RealVal(0) if self.ex.instance == 'real' else z3.IntVal(0))
        if what == 'V1':
            if self.ex.instance == 'real':
                return SVal(z3.RealVal(1))
            scale_facts(st, self.ex)
            return SVal(SCALE)
        raise Unsupported('constant field ' + what)

    def field_owner(self, cname, field):
        "the class (self or base) whose schema declares the field"
        sc = self.schema(cname)
        if sc is not None and field in sc.fields:
            return cname
        info = self.ex.repo.resolve(cname)
        if isinstance(info, ClassInfo):
            for b in self.base_classes(info):
                sb = self.schema(b.qualname)
                if sb is not None and field in sb.fields:
                    return b.qualname
        return cname

    def base_classes(self, info):
        out = []
        for b in info.bases:
            nm = b.split('.')[-1]
            tgt = None
            if nm in info.module.classes:
                tgt = info.module.classes[nm]
            elif b.split('.')[0] in info.module.imports:
                r = self.ex.repo.resolve(info.module.imports[b.split('.')[0]] +
                                         ('.' + '.'.join(b.split('.')[1:]) if '.' in b else ''))
                if isinstance(r, ClassInfo):
                    tgt = r
            if tgt is not None:
                out.append(tgt)
                out += self.base_classes(tgt)
        return out

    def find_method(self, info, name):
        m = info.method(name)
        if m is not None:
            return m, info
        for b in self.base_classes(info):
            m = b.method(name)
            if m is not None:
                return m, b
        return None, None

    def class_attr(self, st, info, attr):
        "value of a class attribute (looking through base classes) or None"
        for k in [info] + self.base_classes(info):
            key = (k.qualname, attr)
            if key in st.cattr:
                return st.cattr[key]
            sc = self.schema(k.qualname)
            if sc is not None and attr in sc.cattrs:
                # the initial value of a class attribute has a deterministic name: a read in a forked state (spec
                # evaluation, old()) and a read on the path itself denote the same prior value
                with deterministic_names():
                    v = self.fresh_of_kind(sc.cattrs[attr], 'C0_%s_%s' % (k.name, attr))
                if isinstance(v, SRef):
                    # objects held by class attributes exist before the call under verification
                    st.assume(v.t >= 1)
                    st.assume(v.t < st.ghost.get('alloc0', st.alloc))
                st.cattr[key] = v
                if self.ex.spec_mode is None:
                    # executable code reads a class attribute that nothing on this path has assigned yet:
                    # its value is whatever an earlier election left there
                    st.ghost['prior_reads'] = st.ghost.get('prior_reads', []) + [key]
                return v
            if attr in k.attrs:
                try:
                    return self.ex.const(ast.literal_eval(k.attrs[attr]))
                except Exception:
                    raise Unsupported('class attribute %s.%s initialiser' % (k.qualname, attr))
        return None

    # ------------------------------------------------------------------ getattr / setattr
    def getattr(self, v, attr, st, fr, node=None):
        ex = self.ex
        from .arith import SVClass, vclass_getattr
        if isinstance(v, SVClass):
            return vclass_getattr(self, attr, st, fr)
        if isinstance(v, SRef) and isinstance(v.cls, ClassInfo):
            kind = self.field_kind(v.cname, attr)
            if kind is not None:
                return ex.ok(self.read_field(st, v, attr, kind), st)
            m, owner = self.find_method(v.cls, attr)
            if m is not None:
                if m.kind == 'property':
                    return self.call_func(SFunc(m, bound=v), [], {}, st, fr, node)
                if m.kind == 'classmethod':
                    return ex.ok(SFunc(m, bound_cls=SClass(v.cls)), st)
                if m.kind == 'staticmethod':
                    return ex.ok(SFunc(m), st)
                return ex.ok(SFunc(m, bound=v), st)
            ca = self.class_attr(st, v.cls, attr)
            if ca is not None:
                return ex.ok(ca, st)
            hk = ex.hooks.get('getattr')
            if hk:
                r = hk(v, attr, st, fr)
                if r is not None:
                    return r
            raise Unsupported('attribute %s of %s (no schema entry)' % (attr, v.cname))
        if isinstance(v, SRef):
            r = self.pseudo_getattr(v, attr, st, fr)
            if r is not None:
                return r
            raise Unsupported('attribute %s of pseudo object %s' % (attr, v.cname))
        if isinstance(v, SClass):
            ca = self.class_attr(st, v.info, attr)
            if ca is not None:
                return ex.ok(ca, st)
            m, owner = self.find_method(v.info, attr)
            if m is not None:
                if m.kind == 'classmethod':
                    return ex.ok(SFunc(m, bound_cls=v), st)
                return ex.ok(SFunc(m), st)
            if attr in v.info.classes:
                return ex.ok(SClass(v.info.classes[attr]), st)
            if attr == '__name__':
                return ex.ok(SStr(lit=v.info.name), st)
            hk = ex.hooks.get('class_getattr')
            if hk:
                r = hk(v, attr, st, fr)
                if r is not None:
                    return r
            raise Unsupported('class attribute %s.%s' % (v.info.qualname, attr))
        if isinstance(v, SModule):
            if v.info is not None:
                try:
                    return ex.ok(ex.global_name(attr, v.info), st)
                except Unsupported:
                    pass
                sub = ex.repo.module(v.name + '.' + attr)
                if sub is not None:
                    return ex.ok(SModule(sub.name, sub), st)
            return ex.ok(SBuiltin('%s.%s' % (v.name, attr)), st)
        if isinstance(v, SStr):
            return ex.ok(SBuiltin('str.' + attr, bound=v), st)
        if isinstance(v, SInt):
            if attr in ('numerator',):
                return ex.ok(v, st)
            if attr == 'denominator':
                return ex.ok(SInt(1), st)
            return ex.ok(SBuiltin('int.' + attr, bound=v), st)
        if isinstance(v, SList):
            return ex.ok(SBuiltin('list.' + attr, bound=v), st)
        if isinstance(v, (SSet,)):
            return ex.ok(SBuiltin('set.' + attr, bound=v), st)
        if isinstance(v, SAbs):
            return ex.ok(SBuiltin('abs.' + attr, bound=v), st)
        if isinstance(v, SAny):
            return ex.ok(SBuiltin('any.' + attr, bound=v), st)
        if isinstance(v, SVal):
            r = self.val_getattr(v, attr, st, fr)
            if r is not None:
                return r
        if isinstance(v, SOpt):
            # attribute of a possibly-None value: AttributeError is outside A-exc (sorts are trusted)
            return self.getattr(v.inner, attr, st, fr, node)
        if isinstance(v, SSpecial):
            raise Unsupported('attribute of %s' % v.name)
        if isinstance(v, SNone):
            return ex.exc('AttributeError', st)
        raise Unsupported('getattr %s of %r' % (attr, v))

    def setattr(self, ov, attr, v, st, fr, node=None):
        ex = self.ex
        if isinstance(ov, SNone):
            return ex.exc('AttributeError', st)
        if isinstance(ov, SOpt):
            ov = ov.inner       # AttributeError on None is outside A-exc
        if isinstance(ov, SRef) and isinstance(ov.cls, ClassInfo):
            kind = self.field_kind(ov.cname, attr)
            if kind is None:
                hk = ex.hooks.get('setattr')
                if hk and hk(ov, attr, v, st, fr):
                    return ex.ok(None, st)
                raise Unsupported('store to %s.%s (no schema entry)' % (ov.cname, attr))
            self.write_field(st, ov, attr, v, kind)
            return ex.ok(None, st)
        if isinstance(ov, SClass):
            owner = ov.info
            sc = self.schema(owner.qualname)
            if sc is not None and sc.cattrs.get(attr) == 'int' and isinstance(v, SAny):
                # an option value stored where an int is expected: obligation that it is one
                caller = ex.cur_func.qualname if ex.cur_func else '?'
                ex.col.add('PRE', ex.cur_props or [], caller, 'int-valued:%s' % attr,
                           'the value stored in %s.%s is an int' % (owner.name, attr), self.assumptions(st),
                           self.AnyT.is_i(v.t))
                st.assume(self.AnyT.is_i(v.t))
                v = SInt(self.AnyT.iv(v.t))
            st.cattr[(owner.qualname, attr)] = v
            w = st.ghost.setdefault('cattr_writes', [])
            st.ghost['cattr_writes'] = w + [(owner.qualname, attr)]
            return ex.ok(None, st)
        if isinstance(ov, SRef):
            r = self.pseudo_setattr(ov, attr, v, st, fr)
            if r is not None:
                return r
        raise Unsupported('setattr %s on %r' % (attr, ov))

    def pseudo_getattr(self, v, attr, st, fr):
        if v.cname == 'dict':
            return self.ex.ok(SBuiltin('dict.' + attr, bound=v), st)
        if v.cname in ('actionlog', 'rounds') and attr == 'append':
            return self.ex.ok(SBuiltin(v.cname + '.append', bound=v), st)
        hk = self.ex.hooks.get('pseudo_getattr')
        if hk:
            return hk(v, attr, st, fr)
        return None

    def val_binop(self, on, a, b, st, fr, node=None):
        from .arith import val_binop
        return val_binop(self, on, a, b, st, fr, node)

    def val_compare(self, on, a, b, st, fr, node=None):
        from .arith import val_compare
        return val_compare(self, on, a, b, st, fr, node)

    def val_getattr(self, v, attr, st, fr):
        from .arith import val_getattr
        return val_getattr(self, v, attr, st, fr)

    def pseudo_setattr(self, ov, attr, v, st, fr):
        return None

    def ref_truth(self, v, st):
        if v.cname == 'dict':
            # non-empty iff some key is present: dict_nonempty(d) with  has(d,k) => nonempty(d)
            from .anyval import dict_nonempty
            return dict_nonempty(v.t, z3.Select(self.dict_arrays(st)[0], v.t))
        if isinstance(v.cls, ClassInfo):
            m, _ = self.find_method(v.cls, '__bool__')
            if m is not None:
                # __bool__ of the arithmetic classes: self._value != 0  (checked by contract C12)
                k = self.field_kind(v.cname, '_value')
                if k == 'int':
                    return self.read_field(st, v, '_value').t != 0
                raise Unsupported('__bool__ of %s' % v.cname)
        return z3.BoolVal(True)

    def identical(self, a, b, st):
        if isinstance(a, SNone) and isinstance(b, SNone):
            return z3.BoolVal(True)
        if isinstance(b, SNone):
            a, b = b, a
        if isinstance(a, SNone):
            if isinstance(b, SOpt):
                return b.isnone
            if isinstance(b, SAny):
                return b.t == self.Any.none
            return z3.BoolVal(False)
        if isinstance(a, SRef) and isinstance(b, SRef):
            return a.t == b.t if a.cname == b.cname else z3.BoolVal(False)
        if isinstance(a, SBool) and isinstance(b, SBool):
            return a.t == b.t
        if isinstance(a, SOpt) and isinstance(b, SBool):
            if isinstance(a.inner, SBool):
                return z3.And(z3.Not(a.isnone), a.inner.t == b.t)
        raise Unsupported('is-comparison of %r and %r' % (a, b))

    def equal(self, a, b, st, fr):
        "== on non-int kinds; returns outcomes with SBool or None when not applicable"
        ex = self.ex
        if isinstance(a, SBool) and isinstance(b, SBool):
            return ex.ok(SBool(a.t == b.t), st)
        if isinstance(a, SInt) and isinstance(b, SInt):
            return ex.ok(SBool(a.t == b.t), st)
        if isinstance(a, SVal) and isinstance(b, SVal):
            return ex.val_compare_eq(a, b, st, fr) if hasattr(ex, 'val_compare_eq') else self.val_compare('Eq', a, b, st, fr)
        if isinstance(a, SStr) and isinstance(b, SStr):
            if a.lit is not None and b.lit is not None:
                return ex.ok(SBool(a.lit == b.lit), st)
            return ex.ok(SBool(self.str_eq(a, b)), st)
        if isinstance(a, SNone) or isinstance(b, SNone):
            return ex.ok(SBool(self.identical(a, b, st)), st)
        if isinstance(a, SOpt) and not isinstance(b, SOpt):
            r = self.equal(a.inner, b, st, fr)
            if r is None:
                return None
            return ex.bind(r, lambda v, s: ex.ok(SBool(z3.And(z3.Not(a.isnone), v.t)), s))
        if isinstance(b, SOpt) and not isinstance(a, SOpt):
            return self.equal(b, a, st, fr)
        if isinstance(a, SStr) and isinstance(b, (SInt, SBool)) or isinstance(b, SStr) and isinstance(a, (SInt, SBool)):
            return ex.ok(SBool(False), st)
        if isinstance(a, SBool) and isinstance(b, SInt):
            return ex.ok(SBool(z3.If(a.t, 1, 0) == b.t), st)
        if isinstance(a, SInt) and isinstance(b, SBool):
            return ex.ok(SBool(z3.If(b.t, 1, 0) == a.t), st)
        if isinstance(a, STuple) and isinstance(b, STuple):
            if len(a.items) != len(b.items):
                return ex.ok(SBool(False), st)
            acc = []
            for x, y in zip(a.items, b.items):
                outs = ex.compare(ast.Eq(), x, y, st, fr)
                if len(outs) != 1 or outs[0].kind != 'ok':
                    raise Unsupported('tuple equality with effects')
                acc.append(outs[0].val.t)
            return ex.ok(SBool(z3.And(*acc) if acc else z3.BoolVal(True)), st)
        if isinstance(a, SRef) and isinstance(a.cls, ClassInfo):
            m, _ = self.find_method(a.cls, '__eq__')
            if m is None and isinstance(b, SRef):
                return ex.ok(SBool(a.t == b.t), st)
        return None

    # ------------------------------------------------------------------ calls
    def ev_call(self, e, st, fr):
        ex = self.ex
        # spec-level forms that need unevaluated arguments
        if isinstance(e.func, ast.Name) and (ex.spec_mode is not None) and e.func.id in self.SPEC_FORMS:
            return self.spec_form(e, st, fr)
        if isinstance(e.func, ast.Name) and e.func.id == 'super':
            raise Unsupported('super()')
        if any(isinstance(a, ast.Starred) for a in e.args) or any(k.arg is None for k in e.keywords):
            raise Unsupported('star-args call')

        def k(fv, s):
            exprs = list(e.args) + [kw.value for kw in e.keywords]

            def k2(vs, s2):
                args = vs[:len(e.args)]
                kwargs = {kw.arg: v for kw, v in zip(e.keywords, vs[len(e.args):])}
                return self.call(fv, args, kwargs, s2, fr, e)
            return ex.ev_many(exprs, s, fr, k2)
        # super(X, self).method(...)  -> handled as unsupported unless hook
        if isinstance(e.func, ast.Attribute) and isinstance(e.func.value, ast.Call) and \
                isinstance(e.func.value.func, ast.Name) and e.func.value.func.id == 'super':
            return self.super_call(e, st, fr)
        return ex.bind(ex.ev(e.func, st, fr), k)

    def super_call(self, e, st, fr):
        hk = self.ex.hooks.get('super_call')
        if hk:
            return hk(e, st, fr)
        raise Unsupported('super() call')

    def call(self, fv, args, kwargs, st, fr, node=None):
        ex = self.ex
        if isinstance(fv, SFunc):
            return self.call_func(fv, args, kwargs, st, fr, node)
        if isinstance(fv, SClass):
            return self.construct(fv.info, args, kwargs, st, fr, node)
        if isinstance(fv, SBuiltin):
            return ex.B.call(fv, args, kwargs, st, fr, node)
        if isinstance(fv, SExcClass):
            if fv.name == 'Fraction':
                # A-lib: Fraction(a, b) is the exact rational a/b ; Fraction(a, None) is a
                if len(args) == 2 and isinstance(args[0], SInt) and isinstance(args[1], SInt):
                    a, b = args
                    return ex.split(b.t == 0, st, lambda s: ex.exc('ZeroDivisionError', s),
                                    lambda s: ex.ok(SVal(z3.ToReal(a.t) / z3.ToReal(b.t)), s))
                if len(args) == 2 and isinstance(args[0], SInt) and isinstance(args[1], SNone):
                    return ex.ok(SVal(z3.ToReal(args[0].t)), st)
                raise Unsupported('Fraction construction')
            return ex.ok(SRef('exc:' + fv.name, fresh_int('exc')), st)
        if isinstance(fv, SLambda):
            return self.call_lambda(fv, args, st)
        from .arith import SVClass, vclass_call
        if isinstance(fv, SVClass):
            return vclass_call(self, args, kwargs, st, fr)
        raise Unsupported('call of %r' % (fv,))

    def call_lambda(self, lam, args, st):
        ex = self.ex
        pfr = ex.frames[lam.fid]
        names = [a.arg for a in lam.node.args.args]
        fr = ex.new_frame(st, None, lam.fid, lam.owner, pfr.module, locals_set=set(names))
        fr.func = pfr.func
        for n, v in zip(names, args):
            st.envs[fr.fid][n] = v
        return ex.ev(lam.node.body, st, fr)

    def call_method(self, obj, name, args, kwargs, st, fr, node=None):
        return self.ex.bind(self.getattr(obj, name, st, fr, node),
                            lambda f, s: self.call(f, args, kwargs, s, fr, node))

    def bind_params(self, info, args, kwargs, st, fr, bound=None, bound_cls=None):
        "returns dict name->SV, evaluating defaults (constants only)"
        a = info.node.args
        names = [x.arg for x in a.posonlyargs + a.args]
        actual = list(args)
        if bound is not None:
            actual = [bound] + actual
        elif bound_cls is not None:
            actual = [bound_cls] + actual
        if len(actual) > len(names):
            raise Unsupported('too many arguments for %s' % info.qualname)
        env = dict(zip(names, actual))
        defaults = dict(zip(names[len(names) - len(a.defaults):], a.defaults))
        for n in names:
            if n in env:
                continue
            if n in kwargs:
                env[n] = kwargs[n]
            elif n in defaults:
                env[n] = self.default_value(defaults[n], info)
            else:
                raise Unsupported('missing argument %s for %s' % (n, info.qualname))
        for x, d in zip(a.kwonlyargs, a.kw_defaults):
            if x.arg in kwargs:
                env[x.arg] = kwargs[x.arg]
            elif d is not None:
                env[x.arg] = self.default_value(d, info)
        extra = set(kwargs) - set(names) - {x.arg for x in a.kwonlyargs}
        if extra:
            raise Unsupported('unexpected keyword %s for %s' % (extra, info.qualname))
        return env

    def default_value(self, node, info):
        try:
            return self.ex.const(ast.literal_eval(node))
        except Exception:
            raise Unsupported('non-constant default in %s' % info.qualname)

    def call_func(self, f, args, kwargs, st, fr, node=None):
        ex = self.ex
        info = f.info
        env = self.bind_params(info, args, kwargs, st, fr, f.bound, f.bound_cls)
        hk = ex.hooks.get('pre_call')
        if hk:
            r = hk(info, env, st, fr, node)
            if r is not None:
                return r
        con = self.contract_at_call(info, env, st)
        if con is not None:
            free = con.opts.get('free')
            if free:
                pfr = ex.frames.get(f.parent_fid)
                if pfr is None:
                    raise Unsupported('closure %s called without its defining frame' % info.qualname)
                for n in free:
                    if n in env:
                        continue
                    v = ex.lookup(n, st, pfr)
                    if v is None:
                        return ex.exc('NameError', st)
                    env[n] = v
            return self.apply_contract(con, info, env, st, fr, node)
        return self.inline(f, env, st, node)

    def contract_at_call(self, info, env, st):
        cs = self.ex.specs.contracts.get(info.qualname)
        if not cs:
            return None
        if self.ex.inline_only and info.qualname in self.ex.inline_only:
            return None
        return cs[0]

    def inline(self, f, env, st, node=None):
        ex = self.ex
        info = f.info
        if ex.inline_depth > ex.max_inline:
            raise Unsupported('in-line depth exceeded at %s' % info.qualname)
        ex.col.inlined.add(info.qualname)
        fr2 = ex.new_frame(st, info, f.parent_fid, info.owner, info.module)
        st.envs[fr2.fid].update(env)
        ex.inline_depth += 1
        try:
            outs = ex.run_block(info.node.body, st, fr2)
        finally:
            ex.inline_depth -= 1
        res = []
        for o in outs:
            if o.kind == 'ret':
                res.append(Out('ok', o.val, o.st))
            elif o.kind == 'ok':
                res.append(Out('ok', NONE, o.st))
            elif o.kind == 'exc':
                res.append(o)
            else:
                raise Unsupported('break/continue escaping function')
        return res

    def alloc(self, st, cname):
        r = st.alloc
        st.alloc = z3.simplify(st.alloc + 1)
        st.note_ref(cname, r)
        return r

    def construct(self, info, args, kwargs, st, fr, node=None):
        ex = self.ex
        hk = ex.hooks.get('construct')
        if hk:
            r = hk(info, args, kwargs, st, fr, node)
            if r is not None:
                return r
        if self.find_method(info, '__new__')[0] is not None:
            raise Unsupported('class with __new__: %s' % info.qualname)
        if any(b.split('.')[-1] in ('Exception',) for b in info.bases):
            return ex.ok(SRef('exc:' + info.name, fresh_int('exc')), st)
        obj = SRef(info, self.alloc(st, info.qualname))
        m, owner = self.find_method(info, '__init__')
        if m is None:
            return ex.ok(obj, st)
        outs = self.call_func(SFunc(m, bound=obj), args, kwargs, st, fr, node)
        return ex.bind(outs, lambda v, s: ex.ok(obj, s))

    # ------------------------------------------------------------------ misc containers
    def unpack(self, v, n, st, fr):
        if isinstance(v, STuple):
            items = v.items
        elif isinstance(v, SList):
            items = st.lists[v.lid]
        else:
            raise Unsupported('unpack of %r' % (v,))
        if len(items) != n:
            raise Unsupported('unpack arity')
        return items

    def subscript(self, c, i, st, fr, node=None):
        ex = self.ex
        if isinstance(c, (STuple, SList)) and isinstance(i, SInt):
            items = c.items if isinstance(c, STuple) else st.lists[c.lid]
            iv = z3.simplify(i.t)
            if z3.is_int_value(iv):
                k = iv.as_long()
                if -len(items) <= k < len(items):
                    return ex.ok(items[k], st)
                return ex.exc('IndexError', st)
            raise Unsupported('symbolic index into concrete sequence')
        if isinstance(c, SAbs):
            return self.abs_subscript(c, i, st, fr)
        if isinstance(c, SRef):
            r = self.pseudo_subscript(c, i, st, fr)
            if r is not None:
                return r
        if isinstance(c, SAny) or isinstance(c, SStr):
            raise Unsupported('subscript of %r' % (c,))
        raise Unsupported('subscript of %r' % (c,))

    def pseudo_subscript(self, c, i, st, fr):
        hk = self.ex.hooks.get('pseudo_subscript')
        if hk:
            r = hk(c, i, st, fr)
            if r is not None:
                return r
        if c.cname == 'dict':
            return self.dict_getitem(c, i, st, fr)
        if c.cname.startswith('seq:') and isinstance(i, SInt):
            from .models import seqlen, seqelem, validcid
            n = seqlen(c.t)
            st.assume(n >= 0)
            idx = z3.If(i.t >= 0, i.t, n + i.t)

            def ok(s):
                e = seqelem(c.t, idx)
                v = self.wrap(c.cname[4:], e)
                if c.cname == 'seq:int':
                    # A-profile (C15 post-parse invariant): rankings hold ids of non-withdrawn candidates
                    s.assume(validcid(e))
                return self.ex.ok(v, s)
            return self.ex.split(z3.And(idx >= 0, idx < n), st, ok, lambda s: self.ex.exc('IndexError', s))
        return None

    def setitem(self, c, i, v, st, fr, node=None):
        ex = self.ex
        if isinstance(c, SList) and isinstance(i, SInt):
            iv = z3.simplify(i.t)
            if z3.is_int_value(iv):
                st.lists[c.lid][iv.as_long()] = v
                return ex.ok(None, st)
        if isinstance(c, SRef) and c.cname == 'dict':
            return self.dict_setitem(c, i, v, st, fr)
        hk = ex.hooks.get('setitem')
        if hk:
            r = hk(c, i, v, st, fr)
            if r is not None:
                return r
        raise Unsupported('setitem on %r' % (c,))

    def slice(self, c, lo, hi, stp, st, fr):
        ex = self.ex
        if stp is not None:
            raise Unsupported('slice step')
        if isinstance(c, (SList, STuple)):
            items = c.items if isinstance(c, STuple) else st.lists[c.lid]

            def cv(x):
                if x is None:
                    return None
                t = z3.simplify(x.t)
                if not z3.is_int_value(t):
                    raise Unsupported('symbolic slice bound')
                return t.as_long()
            r = items[cv(lo):cv(hi)]
            return ex.ok(STuple(r) if isinstance(c, STuple) else st.new_list(r), st)
        if isinstance(c, SAbs):
            return self.abs_slice(c, lo, hi, st, fr)
        if isinstance(c, SStr):
            # a slice of a text: computed for literals; otherwise some text the encoding says nothing about (over-approximation, A-str)
            if c.lit is not None:
                def cv2(x):
                    if x is None:
                        return None
                    t = z3.simplify(x.t)
                    if not z3.is_int_value(t):
                        raise Unsupported('symbolic slice bound')
                    return t.as_long()
                return ex.ok(SStr(lit=c.lit[cv2(lo):cv2(hi)]), st)
            return ex.ok(SStr(t=fresh_int('slice')), st)
        raise Unsupported('slice of %r' % (c,))

    def contains(self, coll, x, st, fr):
        ex = self.ex
        if isinstance(coll, (STuple, SList, SSet)):
            items = coll.items if not isinstance(coll, SList) else st.lists[coll.lid]
            acc = []
            for it in items:
                outs = ex.compare(ast.Eq(), x, it, st, fr)
                if len(outs) != 1 or outs[0].kind != 'ok':
                    raise Unsupported('membership test with effects')
                acc.append(outs[0].val.t)
            return ex.ok(SBool(z3.Or(*acc) if acc else z3.BoolVal(False)), st)
        if isinstance(coll, SAbs):
            return ex.ok(SBool(self.abs_mem(coll, x, st)), st)
        if isinstance(coll, SRef) and coll.cname == 'dict':
            return self.dict_contains(coll, x, st, fr)
        if isinstance(coll, SRef):
            hk = ex.hooks.get('contains')
            if hk:
                r = hk(coll, x, st, fr)
                if r is not None:
                    return r
        raise Unsupported('membership in %r' % (coll,))

    def set_binop(self, on, a, b, st, fr):
        "| - & on sets of Any values (abstract key sets and small literal sets); the result is a new set"
        from .l2 import mk_abs

        def memf(x):
            if isinstance(x, SAbs) and x.ek == 'any' and not hasattr(x, 'pair_of'):
                return x.mem
            if isinstance(x, SSet):
                ts = [self.to_any(i).t for i in x.items]
                return lambda t: z3.Or(*[t == u for u in ts]) if ts else z3.BoolVal(False)
            raise Unsupported('set operation %s on %r' % (on, x))
        ma, mb = memf(a), memf(b)
        if on == 'BitOr':
            mem = lambda t: z3.Or(ma(t), mb(t))         # noqa
        elif on == 'BitAnd':
            mem = lambda t: z3.And(ma(t), mb(t))        # noqa
        else:
            mem = lambda t: z3.And(ma(t), z3.Not(mb(t)))    # noqa
        n = fresh_int('nset')
        st.assume(n >= 0)
        return self.ex.ok(mk_abs(self, st, 'any', mem, n, base='set', distinct=True, register=False), st)

    def int_pow(self, a, b, st):
        ex = self.ex
        av, bv = z3.simplify(a.t), z3.simplify(b.t)
        if z3.is_int_value(av) and z3.is_int_value(bv) and bv.as_long() >= 0:
            return ex.ok(SInt(av.as_long() ** bv.as_long()), st)
        if z3.is_int_value(av) and av.as_long() == 10:
            # A-pow10 ; negative exponent would give a float: outside the subset
            def neg(s):
                raise Unsupported('10 ** negative exponent')
            if not ex.sat(st, b.t < 0):
                st.assume(b.t >= 0)
                self.pow10_facts(st, b.t)
                return ex.ok(SInt(pow10(b.t)), st)
            return ex.split(b.t >= 0, st, lambda s: (self.pow10_facts(s, b.t), ex.ok(SInt(pow10(b.t)), s))[1],
                            lambda s: ex.exc('FloatPow', s))
        raise Unsupported('general ** ')

    def pow10_facts(self, st, n):
        "instantiate the A-pow10 axioms at exponent term n (and pairwise with known exponents)"
        known = st.ghost.get('pow10_terms', [])
        for k in known:
            if k.eq(n):
                return
        st.ghost['pow10_terms'] = known + [n]
        p = pow10(n)
        st.assume(p >= 1)
        st.assume(z3.Implies(n == 0, p == 1))
        st.assume(z3.Implies(n >= 1, z3.And(p == 10 * pow10(n - 1), pow10(n - 1) >= 1, p >= 10)))
        st.assume(z3.Implies(n >= 1, z3.And(p % 2 == 0, p % 10 == 0)))
        for k in known:
            # monotonic / additive instances
            st.assume(z3.Implies(k <= n, z3.And(pow10(k) <= p)))
            st.assume(z3.Implies(n <= k, z3.And(p <= pow10(k))))
            st.assume(z3.Implies(z3.And(k >= 0, n >= 0, k == n), pow10(k) == p))
            st.assume(z3.Implies(z3.And(k >= 0, n >= 0), pow10(z3.simplify(k + n)) == pow10(k) * p))
            st.assume(z3.Implies(z3.And(k >= n, n >= 0), pow10(k) == pow10(z3.simplify(k - n)) * p))
            st.assume(z3.Implies(z3.And(n >= k, k >= 0), p == pow10(z3.simplify(n - k)) * pow10(k)))
