"""
Contract files (sidecar; parsed, never imported into droop).

A contract module is ordinary Python syntax:

    schema('droop.values.fixed.Fixed', fields={'_value': 'int'}, cattrs={'precision': 'int', ...})

    @specfn
    def lift(x): ...

    @contract('droop.values.fixed.Fixed.__add__', props=['C12'])
    def _(self: 'Fixed', other: 'int|Fixed') -> 'Fixed':
        requires(fixed_inv())
        ensures(result._value == self._value + lift(other))
        modifies()

Only the AST is used.
"""
import ast
import glob
import hashlib
import os

HERE = os.path.dirname(os.path.abspath(__file__))
CONTRACT_DIR = os.path.join(os.path.dirname(HERE), 'contracts')


class Contract:
    def __init__(self, target, node, props, module, opts):
        self.target = target        # qualified name of the real function
        self.node = node            # FunctionDef of the contract
        self.props = props
        self.module = module
        self.opts = opts            # extra keyword options of @contract
        self.params = []            # [(name, [alternatives])]
        a = node.args
        for x in a.posonlyargs + a.args + a.kwonlyargs:
            alts = ['any']
            if x.annotation is not None:
                alts = [s.strip() for s in ast.literal_eval(x.annotation).split('|')]
            self.params.append((x.arg, alts))
        self.defaults = {}
        pos = a.posonlyargs + a.args
        for x, d in zip(pos[len(pos) - len(a.defaults):], a.defaults):
            self.defaults[x.arg] = d
        for x, d in zip(a.kwonlyargs, a.kw_defaults):
            if d is not None:
                self.defaults[x.arg] = d
        self.all_props = set(props) | set(opts.get('site_props') or [])
        for n in ast.walk(node):
            if isinstance(n, ast.keyword) and n.arg == 'props':
                try:
                    self.all_props |= set(ast.literal_eval(n.value))
                except Exception:
                    pass
        self.returns = None
        if node.returns is not None:
            self.returns = ast.literal_eval(node.returns)

    @property
    def name(self):
        return self.node.name

    def __repr__(self):
        return '<Contract %s>' % self.target


class Schema:
    def __init__(self, cls, fields, cattrs, opts):
        self.cls = cls
        self.fields = fields
        self.cattrs = cattrs
        self.opts = opts


class SpecModule:
    def __init__(self, path):
        self.path = path
        self.name = os.path.basename(path)[:-3]
        with open(path) as f:
            self.source = f.read()
        self.tree = ast.parse(self.source, path)


class Specs:
    def __init__(self, directory=None, files=None):
        self.dir = directory or CONTRACT_DIR
        self.contracts = {}     # target -> [Contract]   (several allowed: different property tags)
        self.schemas = {}       # class qualname -> Schema
        self.specfns = {}       # name -> FunctionDef
        self.consts = {}        # name -> ast expr
        self.scans = []         # (FunctionDef, opts)
        self.lemmas = []        # Contract-like records: programs over contracts with check(...) statements
        self.loops = {}         # target -> [(FunctionDef, opts)]
        self.modules = []
        h = hashlib.sha256()
        paths = files or sorted(glob.glob(os.path.join(self.dir, '*.py')))
        for p in paths:
            m = SpecModule(p)
            self.modules.append(m)
            h.update(m.source.encode())
            self._load(m)
        self.digest = h.hexdigest()

    def _load(self, m):
        for s in m.tree.body:
            if isinstance(s, ast.Expr) and isinstance(s.value, ast.Call) and \
                    isinstance(s.value.func, ast.Name) and s.value.func.id == 'schema':
                c = s.value
                cls = ast.literal_eval(c.args[0])
                kw = {k.arg: ast.literal_eval(k.value) for k in c.keywords}
                sc = self.schemas.get(cls)
                if sc is None:
                    self.schemas[cls] = Schema(cls, kw.pop('fields', {}), kw.pop('cattrs', {}), kw)
                else:
                    sc.fields.update(kw.pop('fields', {}))
                    sc.cattrs.update(kw.pop('cattrs', {}))
                    sc.opts.update(kw)
            elif isinstance(s, ast.FunctionDef):
                deco = s.decorator_list[0] if s.decorator_list else None
                if deco is None:
                    continue
                if isinstance(deco, ast.Name) and deco.id == 'specfn':
                    self.specfns[s.name] = s
                elif isinstance(deco, ast.Call) and isinstance(deco.func, ast.Name):
                    kw = {k.arg: self._lit(k.value) for k in deco.keywords}
                    if deco.func.id == 'contract':
                        tgt = self._lit(deco.args[0])
                        tgts = tgt if isinstance(tgt, (list, tuple)) else [tgt]
                        for t in tgts:
                            c = Contract(t, s, kw.get('props', []), m, kw)
                            self.contracts.setdefault(t, []).append(c)
                    elif deco.func.id == 'lemma':
                        c = Contract('lemma:' + s.name, s, kw.get('props', []), m, kw)
                        self.lemmas.append(c)
                    elif deco.func.id == 'scan':
                        self.scans.append((s, kw))
                    elif deco.func.id == 'loops':
                        tgt = self._lit(deco.args[0])
                        for t in (tgt if isinstance(tgt, (list, tuple)) else [tgt]):
                            self.loops.setdefault(t, []).append((s, kw))
            elif isinstance(s, ast.Assign) and len(s.targets) == 1 and isinstance(s.targets[0], ast.Name):
                self.consts[s.targets[0].id] = s.value

    def _lit(self, node):
        "literal, or a module-level constant name of the contract file"
        if isinstance(node, ast.Name) and node.id in self.consts:
            return ast.literal_eval(self.consts[node.id])
        if isinstance(node, ast.BinOp) and isinstance(node.op, ast.Add):
            a, b = self._lit(node.left), self._lit(node.right)
            if isinstance(a, str) and isinstance(b, str):
                return a + b
            return list(a) + list(b)
        return ast.literal_eval(node)

    def contract_for(self, qualname):
        cs = self.contracts.get(qualname)
        return cs[0] if cs else None
