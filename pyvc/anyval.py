"""
Heterogeneous values (option values, dict keys): a z3 datatype
    Any = none | b(Bool) | i(Int) | s(string id) | o(other id)
and dictionaries as pairs of nested arrays indexed by a dict id.
"""
import z3
from .sv import *      # noqa
from .strings import strlen, str_of_int

_Any = z3.Datatype('Any')
_Any.declare('none')
_Any.declare('b', ('bv', B))
_Any.declare('i', ('iv', I))
_Any.declare('s', ('sv', I))
_Any.declare('o', ('ov', I))
AnyT = _Any.create()

is_digits = z3.Function('is_digits', I, B)      # string id -> re.match(r'\d+$')
int_of_str = z3.Function('int_of_str', I, I)    # string id -> int(s) when defined
int_ok = z3.Function('int_ok', I, B)            # int(s) does not raise
_nonempty = z3.Function('dict_nonempty', z3.ArraySort(AnyT, B), B)


def dict_nonempty(d, has_row):
    "some key is present: the has-row is not the constant-False array (array theory: a present key decides it)"
    return z3.Not(has_row == z3.K(AnyT, z3.BoolVal(False)))


class AnyVals:
    AnyT = AnyT
    Any = AnyT

    def to_any(self, v):
        A = AnyT
        if isinstance(v, SAny):
            return v
        if isinstance(v, SNone):
            return SAny(A.none)
        if isinstance(v, SBool):
            return SAny(A.b(v.t))
        if isinstance(v, SInt):
            return SAny(A.i(v.t))
        if isinstance(v, SStr):
            return SAny(A.s(v.t))
        if isinstance(v, SOpt):
            return SAny(z3.If(v.isnone, A.none, self.to_any(v.inner).t))
        if isinstance(v, SRef):
            return SAny(A.o(v.t))
        if isinstance(v, (SAbs, STuple, SList, SSet)):
            return SAny(A.o(fresh_int('obj')))
        if isinstance(v, SVal):
            return SAny(A.o(fresh_int('valobj')))      # an arithmetic value stored in a dictionary: opaque
        raise Unsupported('to_any %r' % (v,))

    def any_is_num(self, a):
        return z3.Or(AnyT.is_b(a.t), AnyT.is_i(a.t))

    def any_num(self, a):
        return z3.If(AnyT.is_b(a.t), z3.If(AnyT.bv(a.t), 1, 0), AnyT.iv(a.t))

    def any_truth(self, a):
        A = AnyT
        t = a.t
        return z3.If(A.is_none(t), False,
                     z3.If(A.is_b(t), A.bv(t),
                           z3.If(A.is_i(t), A.iv(t) != 0,
                                 z3.If(A.is_s(t), strlen(A.sv(t)) > 0, True))))

    def any_eq(self, a, b):
        a, b = self.to_any(a), self.to_any(b)
        return z3.Or(a.t == b.t, z3.And(self.any_is_num(a), self.any_is_num(b), self.any_num(a) == self.any_num(b)))

    def any_compare(self, on, a, b, st, fr):
        ex = self.ex
        if on in ('Eq', 'NotEq'):
            r = self.any_eq(a, b)
            return ex.ok(SBool(r if on == 'Eq' else z3.Not(r)), st)
        a, b = self.to_any(a), self.to_any(b)
        # ordering: defined for numbers; anything else raises TypeError (str/str ordering not needed)
        okc = z3.And(self.any_is_num(a), self.any_is_num(b))
        x, y = self.any_num(a), self.any_num(b)
        return ex.split(okc, st, lambda s: ex.ok(SBool(ex.intcmp(on, x, y)), s), lambda s: ex.exc('TypeError', s))

    def any_binop(self, on, a, b, st, fr):
        ex = self.ex
        a, b = self.to_any(a), self.to_any(b)
        okc = z3.And(self.any_is_num(a), self.any_is_num(b))
        x, y = SInt(self.any_num(a)), SInt(self.any_num(b))
        import ast as _ast
        op = getattr(_ast, on)()
        return ex.split(okc, st, lambda s: ex.binop(op, x, y, s, fr), lambda s: ex.exc('TypeError', s))

    def any_str_id(self, a):
        A = AnyT
        t = a.t
        return z3.If(A.is_s(t), A.sv(t),
                     z3.If(A.is_i(t), str_of_int(A.iv(t)),
                           z3.If(A.is_none(t), SStr(lit='None').t,
                                 z3.If(A.is_b(t), z3.If(A.bv(t), SStr(lit='True').t, SStr(lit='False').t),
                                       fresh_int('str_other')))))

    def any_int(self, a, st):
        "int(a): ValueError for non-numeral strings, TypeError for None/other"
        ex = self.ex
        A = AnyT
        t = a.t
        outs = []

        def num(s):
            return ex.ok(SInt(self.any_num(a)), s)

        def notnum(s):
            def isstr(s2):
                sid = A.sv(t)
                return ex.split(int_ok(sid), s2, lambda s3: ex.ok(SInt(int_of_str(sid)), s3),
                                lambda s3: ex.exc('ValueError', s3))
            return ex.split(A.is_s(t), s, isstr, lambda s2: ex.exc('TypeError', s2))
        return ex.split(self.any_is_num(a), st, num, notnum)

    # ------------------------------------------------------------------ dicts
    def dict_arrays(self, st):
        if ('dict', 'has') not in st.heap:
            st.heap[('dict', 'has')] = z3.Array('D0_has', I, z3.ArraySort(AnyT, B))
            st.heap[('dict', 'val')] = z3.Array('D0_val', I, z3.ArraySort(AnyT, AnyT))
        return st.heap[('dict', 'has')], st.heap[('dict', 'val')]

    def new_dict(self, st, symbolic=False, base='d'):
        has, val = self.dict_arrays(st)
        if symbolic:
            d = fresh_int(base)
            st.assume(d >= 1)
            st.assume(d < st.alloc)
            return SRef('dict', d)
        d = self.alloc(st, 'dict')
        st.heap[('dict', 'has')] = z3.Store(has, d, z3.K(AnyT, z3.BoolVal(False)))
        return SRef('dict', d)

    def dict_has(self, st, d, k):
        has, _ = self.dict_arrays(st)
        return z3.Select(z3.Select(has, d.t), self.to_any(k).t)

    def dict_val(self, st, d, k):
        _, val = self.dict_arrays(st)
        return SAny(z3.Select(z3.Select(val, d.t), self.to_any(k).t))

    def dict_store(self, st, d, k, v):
        has, val = self.dict_arrays(st)
        kt = self.to_any(k).t
        st.heap[('dict', 'has')] = z3.Store(has, d.t, z3.Store(z3.Select(has, d.t), kt, z3.BoolVal(True)))
        st.heap[('dict', 'val')] = z3.Store(val, d.t, z3.Store(z3.Select(val, d.t), kt, self.to_any(v).t))

    def dict_getitem(self, d, k, st, fr):
        ex = self.ex
        return ex.split(self.dict_has(st, d, k), st, lambda s: ex.ok(self.dict_val(s, d, k), s),
                        lambda s: ex.exc('KeyError', s))

    def dict_setitem(self, d, k, v, st, fr):
        self.dict_store(st, d, k, v)
        return self.ex.ok(None, st)

    def dict_contains(self, d, k, st, fr):
        has = self.dict_has(st, d, k)
        row = z3.Select(self.dict_arrays(st)[0], d.t)
        return self.ex.ok(SBool(has), st)
