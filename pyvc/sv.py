"""
Symbolic values.  Every Python value met during symbolic execution has a statically known
*kind* on the path being executed (paths are split when the kind differs), and carries z3
terms for its symbolic content.
"""
import z3

I = z3.IntSort()
B = z3.BoolSort()
R = z3.RealSort()

_ctr = [0]


_det = [False]


def fresh_name(base):
    if _det[0]:
        return '%s!init' % base      # deterministic name (initial value of a lazily created location)
    _ctr[0] += 1
    return '%s!%d' % (base, _ctr[0])


class deterministic_names:
    "within this context fresh symbols are named after their base only: every state sees the same initial symbol"
    def __enter__(self):
        self.prev = _det[0]
        _det[0] = True

    def __exit__(self, *a):
        _det[0] = self.prev


def fresh_int(base='i'):
    return z3.Int(fresh_name(base))


def fresh_bool(base='b'):
    return z3.Bool(fresh_name(base))


def fresh_real(base='r'):
    return z3.Real(fresh_name(base))


class StrTab:
    "interning of string literals as integer ids; symbolic strings are unconstrained Ints"
    def __init__(self):
        self.ids = {}
        self.rev = {}

    def id(self, s):
        "deterministic id of a literal (independent of the order in which literals are met)"
        if s not in self.ids:
            import hashlib
            n = 1000 + int.from_bytes(hashlib.sha1(s.encode('utf-8', 'surrogatepass')).digest()[:5], 'big')
            while n in self.rev and self.rev[n] != s:
                n += 1
            self.ids[s] = n
            self.rev[n] = s
        return self.ids[s]


STR = StrTab()


class SV:
    kind = '?'

    def __repr__(self):
        return '<%s>' % self.kind


class SInt(SV):
    kind = 'int'

    def __init__(self, t):
        self.t = z3.IntVal(t) if isinstance(t, int) else t

    def __repr__(self):
        return 'SInt(%s)' % self.t


class SBool(SV):
    kind = 'bool'

    def __init__(self, t):
        self.t = z3.BoolVal(t) if isinstance(t, bool) else t

    def __repr__(self):
        return 'SBool(%s)' % self.t


class SNone(SV):
    kind = 'none'


NONE = SNone()


class SStr(SV):
    """a string: literal (lit is not None) or symbolic (term is an Int id).
    struct optionally records how the text was built (for the A-fmt model)."""
    kind = 'str'

    def __init__(self, lit=None, t=None, struct=None):
        self.lit = lit
        if lit is not None:
            self.t = z3.IntVal(STR.id(lit))
        else:
            self.t = t if t is not None else fresh_int('s')
        self.struct = struct

    def __repr__(self):
        return 'SStr(%r)' % (self.lit if self.lit is not None else (self.struct or self.t),)


class SFloat(SV):
    """result of int / int (a Python float): known only as the quotient num/den rounded to binary64.
    A-float: for |num|, |den| <= 2**53 the float is within one unit of the exact quotient's integer part;
    beyond that nothing is assumed about it."""
    kind = 'float'

    def __init__(self, num, den):
        self.num, self.den = num, den

    def __repr__(self):
        return 'SFloat(%s/%s)' % (self.num, self.den)


class SVal(SV):
    """a value of the election arithmetic class V, with value semantics (L2).
    t is the stored scaled integer (Int) or the exact value (Real)."""
    kind = 'val'

    def __init__(self, t):
        self.t = t

    def __repr__(self):
        return 'SVal(%s)' % self.t


class SRef(SV):
    kind = 'ref'

    def __init__(self, cls, t):
        self.cls = cls          # ClassInfo or str pseudo-class
        self.t = t

    @property
    def cname(self):
        return self.cls if isinstance(self.cls, str) else self.cls.qualname

    def __repr__(self):
        return 'SRef(%s,%s)' % (self.cname.rsplit('.', 1)[-1], self.t)


class SOpt(SV):
    "None or an inner value"
    kind = 'opt'

    def __init__(self, isnone, inner):
        self.isnone = isnone    # z3 Bool
        self.inner = inner      # SV

    def __repr__(self):
        return 'SOpt(%s,%s)' % (self.isnone, self.inner)


class SAny(SV):
    "opaque heterogeneous value (option values): an id in an uninterpreted universe; 0 is None"
    kind = 'any'

    def __init__(self, t):
        self.t = t

    def __repr__(self):
        return 'SAny(%s)' % self.t


class STuple(SV):
    kind = 'tuple'

    def __init__(self, items):
        self.items = list(items)

    def __repr__(self):
        return 'STuple(%r)' % (self.items,)


class SList(SV):
    "a Python list of statically known length; mutable: identity is the lid into st.lists"
    kind = 'list'

    def __init__(self, lid):
        self.lid = lid


class SSet(SV):
    "a concrete-size set of SVs (used for small literal sets)"
    kind = 'cset'

    def __init__(self, items):
        self.items = list(items)


class SAbs(SV):
    """abstract finite sequence or set of element-kind `ek` ('ref:<cls>' | 'int' | 'val' | 'str').
    mem(t)   -> z3 Bool      membership of an element term
    length   -> z3 Int
    elem(i)  -> z3 term      i-th element (for sequences)
    pos(t)   -> z3 Int       position of an element (only meaningful when distinct)
    facts    -> list of callables(term)->Bool : universally quantified facts over elements
    """
    kind = 'abs'

    def __init__(self, ek, mem, length, elem=None, pos=None, distinct=False, ordered=False,
                 facts=None, cls=None, name='L'):
        self.ek = ek
        self.mem = mem
        self.length = length
        self.elem = elem
        self.pos = pos
        self.distinct = distinct
        self.ordered = ordered
        self.facts = facts or []
        self.cls = cls
        self.name = name

    def __repr__(self):
        return 'SAbs(%s,%s)' % (self.name, self.ek)


class SFunc(SV):
    kind = 'func'

    def __init__(self, info, parent_fid=None, bound=None, bound_cls=None):
        self.info = info
        self.parent_fid = parent_fid
        self.bound = bound          # self object for bound methods
        self.bound_cls = bound_cls  # class for classmethods

    def __repr__(self):
        return 'SFunc(%s)' % self.info.qualname


class SLambda(SV):
    kind = 'lambda'

    def __init__(self, node, fid, owner):
        self.node = node
        self.fid = fid
        self.owner = owner


class SClass(SV):
    kind = 'class'

    def __init__(self, info):
        self.info = info

    def __repr__(self):
        return 'SClass(%s)' % self.info.qualname


class SExcClass(SV):
    "an exception class known by name only"
    kind = 'excclass'

    def __init__(self, name):
        self.name = name


class SModule(SV):
    kind = 'module'

    def __init__(self, name, info=None):
        self.name = name
        self.info = info


class SBuiltin(SV):
    kind = 'builtin'

    def __init__(self, name, bound=None):
        self.name = name
        self.bound = bound

    def __repr__(self):
        return 'SBuiltin(%s)' % self.name


class SGen(SV):
    "a lazily evaluated generator expression (re-evaluated by its consumer)"
    kind = 'gen'

    def __init__(self, node, fid, owner):
        self.node = node
        self.fid = fid
        self.owner = owner


class SSpecial(SV):
    "spec-only marker values (e.g. `result`)"
    kind = 'special'

    def __init__(self, name):
        self.name = name


class Unsupported(Exception):
    "construct outside the PyVC subset: the obligation is ungenerated (undecided), never a violation"


# ---------------------------------------------------------------------------------------------
# integer helpers with Python semantics (A-int)

def py_floordiv(a, b):
    "Python // on ints; caller guards b != 0"
    return z3.If(b > 0, a / b, (-a) / (-b))


def py_mod(a, b):
    return a - b * py_floordiv(a, b)


pow10 = z3.Function('pow10', I, I)


def set_budget(solver, ms):
    """solver budget for the checks made *while generating* obligations (path feasibility, invariant inference):
    a deterministic resource limit (z3 rlimit, about 5000 units per millisecond on this machine) so that what is
    generated does not depend on how busy the machine is; the wall-clock timeout is only a distant backstop"""
    solver.set('rlimit', int(ms) * 5000)
    solver.set('timeout', max(20 * int(ms), 30000))
