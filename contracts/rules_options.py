"""
Contracts for each rule's options(): statutory rules force their arithmetic (C17, C03 O-arith);
the parametric rules only set defaults.
"""
ScotRule = cls('droop.rules.scotland.Rule')
MplsRule = cls('droop.rules.mpls.Rule')
PrfRule = cls('droop.rules.wigm_prf.Rule')
CferRule = cls('droop.rules.cfer.Rule')
MeekPrfRule = cls('droop.rules.meek_prf.Rule')
QpqRule = cls('droop.rules.qpq.Rule')
MeekRule = cls('droop.rules.meek.Rule')

schema('droop.rules.scotland.Rule', fields={'E': 'ref:droop.election.Election'})
schema('droop.rules.mpls.Rule', fields={'E': 'ref:droop.election.Election'})
schema('droop.rules.wigm_prf.Rule', fields={'E': 'ref:droop.election.Election', 'defeat_batch': 'any', 'name': 'any'})
schema('droop.rules.cfer.Rule', fields={'E': 'ref:droop.election.Election', 'defeat_batch': 'any', 'name': 'any'})
schema('droop.rules.meek_prf.Rule', fields={'E': 'ref:droop.election.Election', 'omega': 'val', 'name': 'any'})
schema('droop.rules.qpq.Rule', fields={'E': 'ref:droop.election.Election'})
schema('droop.rules.meek.Rule', fields={'E': 'ref:droop.election.Election', 'name': 'any', 'warren': 'any',
                                        'omega': 'val', 'omega10': 'any', 'defeat_batch': 'any'})


@specfn
def forced(o, name, value):
    "whatever the caller or the ballot file supplies, the effective value is the statutory one"
    return and_(any_same(effective(o, name), any_of(value)), dhas(o.force, name))


@specfn
def layers_kept(o):
    return and_(dict_same(o.cmd_options, old_dict(o.cmd_options)), dict_same(o.file_options, old_dict(o.file_options)))


@contract('droop.rules.scotland.Rule.options', props=['C17', 'C03'])
def scotland_options(self: 'ScotRule'):
    "Scottish STV order 48(3): fixed decimal, five places"
    o = self.E.options
    requires(opt_inv(o))
    ensures(forced(o, 'arithmetic', 'fixed'))
    ensures(forced(o, 'precision', 5))
    ensures(forced(o, 'display', 5))
    ensures(layers_kept(o))
    modifies_dict(o.default)
    modifies_dict(o.force)
    modifies_dict(o.allowed)


@contract('droop.rules.mpls.Rule.options', props=['C17', 'C03'])
def mpls_options(self: 'MplsRule'):
    "Minneapolis 167.20: four decimal places"
    o = self.E.options
    requires(opt_inv(o))
    ensures(forced(o, 'arithmetic', 'fixed'))
    ensures(forced(o, 'precision', 4))
    ensures(forced(o, 'display', 4))
    ensures(layers_kept(o))
    modifies_dict(o.default)
    modifies_dict(o.force)
    modifies_dict(o.allowed)


@contract('droop.rules.wigm_prf.Rule.options', props=['C17', 'C03'])
def wigm_prf_options(self: 'PrfRule'):
    "PRF WIGM reference rule D.4: four decimal places; batch mode comes from the rule *name*, not from an option"
    o = self.E.options
    requires(opt_inv(o))
    ensures(forced(o, 'arithmetic', 'fixed'))
    ensures(forced(o, 'precision', 4))
    ensures(forced(o, 'display', 4))
    ensures(layers_kept(o))
    ensures(any_same(self.name, old(effective(o, 'rule'))))
    modifies(self, 'name', 'defeat_batch')
    modifies_dict(o.default)
    modifies_dict(o.force)
    modifies_dict(o.allowed)


@contract('droop.rules.cfer.Rule.options', props=['C17', 'C03'])
def cfer_options(self: 'CferRule'):
    "CfER: fixed decimal, five places"
    o = self.E.options
    requires(opt_inv(o))
    ensures(forced(o, 'arithmetic', 'fixed'))
    ensures(forced(o, 'precision', 5))
    ensures(forced(o, 'display', 5))
    ensures(layers_kept(o))
    ensures(any_same(self.name, old(effective(o, 'rule'))))
    modifies(self, 'name', 'defeat_batch')
    modifies_dict(o.default)
    modifies_dict(o.force)
    modifies_dict(o.allowed)


@contract('droop.rules.meek_prf.Rule.options', props=['C17', 'C03'])
def meek_prf_options(self: 'MeekPrfRule'):
    "PRF Meek reference rule: fixed decimal, nine places, omega 1/10^6"
    o = self.E.options
    requires(opt_inv(o))
    ensures(forced(o, 'arithmetic', 'fixed'))
    ensures(forced(o, 'precision', 9))
    ensures(forced(o, 'display', 9))
    ensures(forced(o, 'omega', 6))
    ensures(layers_kept(o))
    modifies_dict(o.default)
    modifies_dict(o.force)
    modifies_dict(o.allowed)


@contract('droop.rules.qpq.Rule.options', props=['C17', 'C03'])
def qpq_options(self: 'QpqRule'):
    "QPQ: guarded 9+9"
    o = self.E.options
    requires(opt_inv(o))
    ensures(forced(o, 'arithmetic', 'guarded'))
    ensures(forced(o, 'precision', 9))
    ensures(forced(o, 'guard', 9))
    ensures(forced(o, 'display', 9))
    ensures(layers_kept(o))
    modifies_dict(o.default)
    modifies_dict(o.force)
    modifies_dict(o.allowed)
