"""
Contracts for droop/values/rational.py  (C12: exact, closed; C14: printing)

A Rational is modelled as an exact real (A-lib: fractions.Fraction implements exact field
arithmetic and ordering).  The wrapper loop that re-wraps Fraction's operators so that results
are Rational again is checked syntactically (SCAN obligations in gens.py).
"""
Rational = cls('droop.values.rational.Rational')

schema('droop.values.rational.Rational',
       fields={},
       cattrs={'dp': 'int', '_dps': 'int', '_dpr': 'real', '_dfmt': 'str',
               '_Rational__default_denominator': 'opt:int'})
# exact / quasi_exact / name / info are class-body constants


@specfn
def rational_inv():
    d = Rational.dp
    return and_(d >= 0, Rational._dps == pow10(d), Rational._dpr * 2 * to_real(Rational._dps) == to_real(1),
                is_dfmt(Rational._dfmt, d))


@contract('droop.values.rational.Rational.mul', props=['C12'], instance='real')
def rational_mul(arg1: 'val', arg2: 'val', round: 'str|none' = None) -> 'val':
    "exact; round is ignored"
    ensures(result == arg1 * arg2)
    modifies()


@contract('droop.values.rational.Rational.div', props=['C12'], instance='real')
def rational_div(arg1: 'val', arg2: 'val', round: 'str|none' = None) -> 'val':
    raises(ZeroDivisionError, when=arg2 == to_real(0))
    ensures(result * arg2 == arg1)
    modifies()


@contract('droop.values.rational.Rational.muldiv', props=['C12'], instance='real')
def rational_muldiv(arg1: 'val', arg2: 'val', arg3: 'val', round: 'str|none' = None) -> 'val':
    raises(ZeroDivisionError, when=arg3 == to_real(0))
    ensures(result * arg3 == arg1 * arg2)
    modifies()


@contract('droop.values.rational.Rational.__str__', props=['C14'], instance='real')
def rational_str(self: 'val') -> 'str':
    "printed numeral = exact value rounded half-up at dp digits, sign shown"
    requires(rational_inv())
    D = Rational._dps
    n = floor_real(self * to_real(D) + Rational._dpr * to_real(D))
    ensures(str_denotes(result, n, D), name='printed numeral == value rounded half-up at display digits')
    modifies()
