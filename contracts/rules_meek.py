"""
Contracts for the Meek-family keep/weight steps (C08 M3: no negative keep value or weight; a ballot never hands
out more than it holds) and the keep-factor update.
"""
KW = 'droop.rules.meek.Rule.count.<locals>.distributeVotes.<locals>.'


@contract(KW + 'kw_warren', props=['C08', 'C02'], free={'V': 'vclass', 'V0': 'V0', 'V1': 'V1'}, instances=['scaled', 'real'])
def kw_warren(kf: 'val', weight: 'val') -> 'tuple:val,val':
    "Warren: the candidate keeps min(kf, weight); the rest stays on the ballot — exactly, nothing is lost"
    requires(kf >= V0)
    requires(weight >= V0)
    keep = result[0]
    rest = result[1]
    ensures(keep == ite(kf < weight, kf, weight))
    ensures(and_(keep >= V0, rest >= V0))
    ensures(keep + rest == weight, name='keep + new weight == old weight (exact)')
    modifies()


@contract(KW + 'kw_meekOpenSTV', props=['C08', 'C02'], free={'V': 'vclass', 'V0': 'V0', 'V1': 'V1'}, instances=['scaled', 'real'])
def kw_meek(kf: 'val', weight: 'val') -> 'tuple:val,val':
    "Meek: keep = weight*kf and new weight = weight*(1-kf), each rounded down: never negative, never more than the ballot holds"
    requires(kf >= V0)
    requires(kf <= V1)
    requires(weight >= V0)
    keep = result[0]
    rest = result[1]
    ensures(and_(keep >= V0, rest >= V0), name='no negative keep value or weight')
    ensures(keep + rest <= weight, name='a ballot never hands out more than it holds')
    ensures(rest <= weight)
    modifies()


# --------------------------------------------------------------------------------------------- Meek / Warren count()
MeekRule = cls('droop.rules.meek.Rule')
FREE_EC = {'E': 'Election', 'C': 'Candidates'}


@contract('droop.rules.meek.Rule.count.<locals>.countComplete', props=['C01'], free=FREE_EC)
def meek_count_complete() -> 'bool':
    "the count is over when the hopefuls no longer outnumber the open seats, or no seat is open"
    requires(same_ref(C, E.C))
    requires(is_the_election(E))
    left = E.electionProfile.nSeats - ghost('nE')
    ensures(result == or_(ghost('nH') <= left, left <= 0))
    modifies()


@contract('droop.rules.meek.Rule.count.<locals>.calcQuota', props=['C04'], free={'E': 'Election'},
          instances=['scaled', 'guarded', 'real'])
def calc_quota_meek() -> 'val':
    """votes/(seats+1) exactly under exact arithmetic; that quotient truncated (plus one unit in the last place under
    fixed-point arithmetic) otherwise; the votes are the current total of the continuing candidates' tallies"""
    s = E.electionProfile.nSeats
    requires(s >= 1)
    if instance_is('real'):
        ensures(result * V_of_int(s + 1) == E.votes)
    else:
        if instance_is('guarded'):
            ensures(floor_of(units(result), units(E.votes), s + 1))
        else:
            ensures(floor_of(units(result) - 1, units(E.votes), s + 1))
    modifies()


@contract('droop.rules.meek.Rule.count.<locals>.batchDefeat', props=['C07', 'C01'], free=FREE_EC,
          trusted='grouped prefix scan over a sorted list built with list.append (lists of lists): outside the verified subset; '
                  'its postcondition is checked by the bounded stand-in (C07 sure-loser monitor)')
def meek_batch_defeat(surplus: 'val') -> 'abs:Candidate':
    "sure losers: all hopeful, and enough hopefuls remain to fill the seats"
    ensures(forall(result, lambda c: and_(in_election(c), c.state == 'hopeful')))
    ensures(length(result) >= 0)
    ensures(length(result) <= ghost('nH') - (E.electionProfile.nSeats - ghost('nE')), name='enough candidates remain')
    modifies()


@contract('droop.rules.meek.Rule.count.<locals>.distributeVotes', props=['C08', 'C01'], free=FREE_EC,
          trusted='the Meek/Warren distribution sweep (nested loops over rankings with early exit and the recursive split of equal '
                  'rankings): outside the verified subset; its invariants M1-M3 are checked by the bounded stand-in of C08. '
                  'Frame by SCAN: it assigns tallies, ballot weights/residuals and E.residual only, never a status')
def meek_distribute():
    ensures(forall('ref:droop.candidate.Candidate',
                   lambda c: implies(and_(in_election(c), c.state == 'elected'), c.vote > E.V0)),
            name='(assumed, M-invariant) an elected candidate keeps a positive tally')
    modifies_all(Candidate, 'vote')
    modifies_all(Ballot, 'weight', 'residual')
    modifies(E, 'residual')


@contract('droop.rules.meek.Rule.count.<locals>.distributeVotes', props=['C08', 'C02'],
          free={'E': 'Election', 'C': 'Candidates', 'V': 'vclass', 'V0': 'V0', 'V1': 'V1', 'self': 'MeekRule'},
          instances=['scaled', 'real'], ledger=True)
def meek_distribute_conserves():
    """M1 (C08 / C02), strict rankings: after a Meek or Warren distribution the continuing candidates' tallies and the residual
    add up to exactly the number of ballots, in every arithmetic (each ballot line hands out tallies + its own residual ==
    its number of papers, by construction of the residual); no tally is touched other than through that hand-out"""
    requires(same_ref(C, E.C))
    requires(is_the_election(E))
    requires(length(E.ballotsEqual) == 0, name='strict rankings only (the recursive split of equal rankings is not under this contract)')
    requires(forall('ref:droop.election.Election.Ballot',
                    lambda b: implies(is_ballot(b), and_(is_whole(b.multiplier), seq_len(b.ranking) >= 1))))
    requires(forall('ref:droop.candidate.Candidate',
                    lambda c: implies(and_(in_election(c), or_(c.state == 'defeated', c.state == 'withdrawn')),
                                      and_(c.vote == E.V0, or_(is_none(c.kf), some(c.kf) == E.V0)))),
             name='excluded and withdrawn candidates hold no votes and keep nothing (M2)')
    requires(forall('ref:droop.candidate.Candidate',
                    lambda c: implies(and_(in_election(c), or_(c.state == 'hopeful', c.state == 'elected')),
                                      and_(not_(is_none(c.kf)), some(c.kf) >= E.V0, some(c.kf) <= E.V1))),
             name='keep factors of continuing candidates lie in [0, 1]')
    ensures(ghost('Tm') == V_of_int(E.electionProfile.nBallots),
            name='tallies + residual == number of ballots, exactly')
    modifies_all(Candidate, 'vote')
    modifies_all(Ballot, 'weight', 'residual')
    modifies(E, 'residual')
    modifies_ghost('T', 'Tm', 'G')


@loops('droop.rules.meek.Rule.count.<locals>.distributeVotes', anchor='for#3')
def meek_distribute_ranking_loop():
    "walking down one ballot's ranking: what has been handed to tallies plus the ballot's residual is its number of papers"
    invariant(implies(ledger_on(), ghost('Tm') + b.residual == old(ghost('Tm') + b.residual)), props=['C08', 'C02'])
    invariant(b.weight >= V0)


@contract('droop.rules.meek.Rule.count', props=['C01', 'C09'], site_props=['C04', 'C07'], instances=['scaled', 'guarded'])
def meek_count(self: 'MeekRule'):
    """Meek / Warren: every status change goes through elect/defeat of a hopeful candidate, the count ends with nobody
    hopeful and the seats filled; termination of the rounds (variant nH) and of each iteration under fixed-point or guarded
    arithmetic (the total surplus strictly decreases).  Exact rational arithmetic: termination of iterate() not decided."""
    E = self.E
    requires(count_entry(E))
    requires(and_(any_is_int(self.omega10), any_int_value(self.omega10) >= 0), name='omega is a non-negative integer (options())')
    requires(E.V.name != 'integer', name="Meek needs fractional arithmetic: 'integer' (fixed with precision 0) is rejected by the rule's own assertion")
    ensures(ghost('nH') == 0, name='every candidate is decided: nobody is left hopeful')
    ensures(ghost('nP') == 0, name='no transfer is left pending')
    ensures(ghost('nW') == old(ghost('nW')), name='withdrawn candidates never change')
    ensures(ghost('nE') >= E.electionProfile.nSeats, name='the seats are filled')
    modifies_all(Candidate, 'state', 'pending', 'vote', 'kf')
    modifies_all(Ballot, 'weight', 'residual')
    modifies(E, 'quota', 'votes', 'round', 'surplus', 'residual')
    modifies(self, 'omega', 'omega10')
    modifies_ghost('nH', 'nE', 'nD', 'nP', 'nlog', 'lasttag', 'lastmsg')


@loops('droop.rules.meek.Rule.count', anchor='while#1')
def meek_main_loop(self):
    E = self.E
    invariant(ghost('nH') + ghost('nE') >= E.electionProfile.nSeats)
    invariant(ghost('nP') == 0)
    invariant(E.round >= 0)
    invariant(forall('ref:droop.candidate.Candidate',
                     lambda c: implies(and_(in_election(c), or_(c.state == 'hopeful', c.state == 'elected')), not_(is_none(c.kf)))))
    variant(ghost('nH'))


@loops('droop.rules.meek.Rule.count.<locals>.iterate', anchor='while#1')
def meek_iterate_loop():
    invariant(ghost('nP') == 0)
    invariant(iStatus == 'none')
    invariant(ghost('nH') == old(ghost('nH')))
    invariant(ghost('nE') == old(ghost('nE')))
    invariant(forall('ref:droop.candidate.Candidate',
                     lambda c: implies(and_(in_election(c), or_(c.state == 'hopeful', c.state == 'elected')), not_(is_none(c.kf)))))
    variant(units(lastsurplus))


@loops('droop.rules.meek.Rule.count.<locals>.iterate', anchor='for#1')
def meek_iterate_elect_loop():
    invariant(implies(iStatus == 'elected', it >= 1))
    invariant(implies(it >= 1, iStatus == 'elected'))
    invariant(or_(iStatus == 'elected', iStatus == 'none'))


# --------------------------------------------------------------------------------------------- QPQ count()
QpqRule = cls('droop.rules.qpq.Rule')


@contract('droop.election.Election.Ballot.restart', props=['C09', 'C06'])
def ballot_restart(self: 'Ballot', weight: 'val'):
    "QPQ restart: the ballot goes back to its first preference with the given weight"
    ensures(self.index == 0)
    ensures(self.weight == weight)
    modifies(self, 'index', 'weight', 'residual')


@contract('droop.rules.qpq.Rule.count.<locals>.transfer', props=['C09', 'C06'], free=FREE_EC)
def qpq_transfer(ballot: 'Ballot'):
    "the ballot moves on to its first hopeful candidate (or becomes inactive); nothing else changes"
    requires(same_ref(C, E.C))
    requires(is_the_election(E))
    requires(is_ballot(ballot))
    requires(and_(ballot.index >= 0, ballot.index <= seq_len(ballot.ranking)))
    ensures(ballot.index >= old(ballot.index))
    ensures(ballot.index <= seq_len(ballot.ranking))
    ensures(implies(ballot.index < seq_len(ballot.ranking), cand_by_cid(seq_at(ballot.ranking, ballot.index)).state == 'hopeful'))
    modifies(ballot, 'index')


@loops('droop.rules.qpq.Rule.count.<locals>.transfer', anchor='while#1')
def qpq_transfer_loop(ballot):
    invariant(ballot.index >= old(ballot.index))
    invariant(ballot.index <= seq_len(ballot.ranking))
    variant(seq_len(ballot.ranking) - ballot.index)


@contract('droop.rules.qpq.Rule.count.<locals>.countComplete', props=['C01'], free=FREE_EC)
def qpq_count_complete() -> 'bool':
    requires(same_ref(C, E.C))
    requires(is_the_election(E))
    left = E.electionProfile.nSeats - ghost('nE')
    ensures(result == or_(left <= 0, ghost('nH') <= left))
    modifies()


@contract('droop.rules.qpq.Rule.count', props=['C01', 'C09'], site_props=['C07'], instances=['real'])
def qpq_count(self: 'QpqRule'):
    """QPQ (exact rational arithmetic is forced): status changes go through elect / defeat of a hopeful candidate and, after
    an exclusion only, unelect of every elected candidate (the restart); the count ends with nobody hopeful and the seats
    filled; the rounds terminate (lexicographic variant: candidates not yet excluded, then hopefuls).  That the divisions
    never divide by zero rests on the QPQ ledger invariant (fractions of candidates elected by inactive ballots stay below
    seats+1), which is checked by the bounded stand-in only: ZeroDivisionError is declared possible here."""
    E = self.E
    requires(count_entry(E))
    raises(ZeroDivisionError)
    ensures(ghost('nH') == 0, name='every candidate is decided: nobody is left hopeful')
    ensures(ghost('nP') == 0, name='no transfer is left pending')
    ensures(ghost('nW') == old(ghost('nW')), name='withdrawn candidates never change')
    ensures(ghost('nE') >= E.electionProfile.nSeats, name='the seats are filled')
    modifies_all(Candidate, 'state', 'pending', 'vote', 'tc', 'quotient')
    modifies_all(Ballot, 'index', 'weight', 'residual')
    modifies(E, 'quota', 'round', 'tx', 'va')
    modifies_ghost('nH', 'nE', 'nD', 'nP', 'nlog', 'lasttag', 'lastmsg')


@loops('droop.rules.qpq.Rule.count', anchor='while#1')
def qpq_main_loop(self):
    E = self.E
    invariant(ghost('nH') + ghost('nE') >= E.electionProfile.nSeats)
    invariant(ghost('nP') == 0)
    invariant(E.round >= 0)
    invariant(forall('ref:droop.election.Election.Ballot', lambda b: implies(is_ballot(b), and_(b.index >= 0, b.index <= seq_len(b.ranking)))))
    variant((ghost('nH') + ghost('nE'), ite(restart, ghost('nH') + ghost('nE'), ghost('nH'))))
