"""
Contracts for the Meek-family keep/weight steps (C08 M3: no negative keep value or weight; a ballot never hands
out more than it holds) and the keep-factor update.
"""
KW = 'droop.rules.meek.Rule.count.<locals>.distributeVotes.<locals>.'


@contract(KW + 'kw_warren', props=['C08', 'C02'], free={'V': 'vclass', 'V0': 'V0', 'V1': 'V1'}, instances=['scaled', 'real'])
def kw_warren(kf: 'val', weight: 'val') -> 'tuple:val,val':
    "Warren: the candidate keeps min(kf, weight); the rest stays on the ballot — exactly, nothing is lost"
    requires(kf >= V0)
    requires(weight >= V0)
    keep = result[0]
    rest = result[1]
    ensures(keep == ite(kf < weight, kf, weight))
    ensures(and_(keep >= V0, rest >= V0))
    ensures(keep + rest == weight, name='keep + new weight == old weight (exact)')
    modifies()


@contract(KW + 'kw_meekOpenSTV', props=['C08', 'C02'], free={'V': 'vclass', 'V0': 'V0', 'V1': 'V1'}, instances=['scaled', 'real'])
def kw_meek(kf: 'val', weight: 'val') -> 'tuple:val,val':
    "Meek: keep = weight*kf and new weight = weight*(1-kf), each rounded down: never negative, never more than the ballot holds"
    requires(kf >= V0)
    requires(kf <= V1)
    requires(weight >= V0)
    keep = result[0]
    rest = result[1]
    ensures(and_(keep >= V0, rest >= V0), name='no negative keep value or weight')
    ensures(keep + rest <= weight, name='a ballot never hands out more than it holds')
    ensures(rest <= weight)
    modifies()
