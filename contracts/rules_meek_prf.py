"""
Contract for the PRF Meek rule count() body: thorough tier only (generating its obligations takes about half an hour:
the iteration step is executed in line inside two nested loops); all 161 obligations discharge.
"""
Candidate = cls('droop.candidate.Candidate')
Ballot = cls('droop.election.Election.Ballot')
FREE_EC = {'E': 'Election', 'C': 'Candidates'}
Election = cls('droop.election.Election')
Candidates = cls('droop.candidates.Candidates')
# --------------------------------------------------------------------------------------------- PRF Meek count()
MeekPrf = cls('droop.rules.meek_prf.Rule')


@contract('droop.rules.meek_prf.Rule.count.<locals>.breakTie', props=['C07'], free=FREE_EC)
def break_tie_meek_prf(tied: 'abs:Candidate') -> 'Candidate':
    "a single candidate is returned silently; otherwise the first in tie-break order, and the tie is logged"
    requires(same_ref(C, E.C))
    requires(length(tied) >= 1)
    ensures(mem(tied, result))
    ensures(implies(length(tied) == 1, ghost('nlog') == old(ghost('nlog'))), name='no tie action for a single candidate')
    ensures(implies(length(tied) > 1, and_(ghost('nlog') == old(ghost('nlog')) + 1, ghost('lasttag') == 'tie')),
            name='every resolution is logged')
    ensures(implies(length(tied) > 1, forall(tied, lambda c: result.tieOrder <= c.tieOrder)),
            name='resolved by the declared tie-break order')
    modifies_ghost('nlog', 'lasttag', 'lastmsg')


@contract('droop.rules.meek_prf.Rule.count', props=['C01', 'C09'], site_props=['C07'], tier='thorough')
def meek_prf_count(self: 'MeekPrf'):
    """PRF Meek (fixed-point arithmetic forced): every status change is elect/defeat of a hopeful candidate, the rounds end
    (variant nH) and so does each iteration (the total surplus strictly decreases), nobody is left hopeful and the seats
    are filled.  That an elected candidate's recomputed tally is never zero (the keep-factor update divides by it) is a
    Meek invariant of the distribution, checked by the bounded stand-in only: ZeroDivisionError is declared possible."""
    E = self.E
    requires(count_entry(E))
    raises(ZeroDivisionError)
    ensures(ghost('nH') == 0, name='every candidate is decided: nobody is left hopeful')
    ensures(ghost('nP') == 0, name='no transfer is left pending')
    ensures(ghost('nW') == old(ghost('nW')), name='withdrawn candidates never change')
    ensures(ghost('nE') >= E.electionProfile.nSeats, name='the seats are filled')
    modifies_all(Candidate, 'state', 'pending', 'vote', 'kf')
    modifies_all(Ballot, 'weight', 'residual')
    modifies(E, 'quota', 'votes', 'round', 'surplus', 'residual')
    modifies(self, 'omega')
    modifies_ghost('nH', 'nE', 'nD', 'nP', 'nlog', 'lasttag', 'lastmsg')


@loops('droop.rules.meek_prf.Rule.count', anchor='while#1')
def meek_prf_main_loop(self):
    E = self.E
    invariant(ghost('nH') + ghost('nE') >= E.electionProfile.nSeats)
    invariant(ghost('nP') == 0)
    invariant(E.round >= 0)
    invariant(forall('ref:droop.candidate.Candidate',
                     lambda c: implies(and_(in_election(c), or_(c.state == 'hopeful', c.state == 'elected')), not_(is_none(c.kf)))))
    variant(ghost('nH'))


@loops('droop.rules.meek_prf.Rule.count', anchor='while#2')
def meek_prf_iteration_loop(self):
    E = self.E
    invariant(ghost('nP') == 0)
    invariant(ghost('nH') + ghost('nE') >= E.electionProfile.nSeats)
    invariant(implies(iterationStatus == 'iterate', and_(ghost('nH') == old(ghost('nH')), ghost('nE') == old(ghost('nE')))))
    invariant(ghost('nH') <= old(ghost('nH')))
    invariant(implies(iterationStatus == 'elected', ghost('nH') < old(ghost('nH'))))
    invariant(or_(iterationStatus == 'iterate', iterationStatus == 'elected', iterationStatus == 'omega', iterationStatus == 'stable'))
    invariant(forall('ref:droop.candidate.Candidate',
                     lambda c: implies(and_(in_election(c), or_(c.state == 'hopeful', c.state == 'elected')), not_(is_none(c.kf)))))
    invariant(lastsurplus >= E.V0)
    invariant(implies(it == 0, iterationStatus == 'iterate'))
    invariant(implies(it >= 1, E.surplus >= E.V0))      # B.2.d clamps a negative total surplus to zero
    variant(ite(iterationStatus == 'iterate', units(lastsurplus) + 1, 0))


@loops('droop.rules.meek_prf.Rule.count.<locals>.iterateStep', anchor='for#4')
def meek_prf_elect_loop(iterationStatus, lastsurplus):
    invariant(implies(iterationStatus == 'elected', it >= 1))
    invariant(implies(it >= 1, iterationStatus == 'elected'))
    invariant(or_(iterationStatus == 'elected', iterationStatus == 'iterate'))
