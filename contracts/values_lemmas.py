"""
Lemmas over the value-class contracts (callees are used by contract only).

C13: exactly one of <, ==, > holds for any pair of guarded values;
C13: with guard == 0, every Guarded operation returns the stored value the Fixed operation of the
     same precision returns (valid calls: round in {'up','down'}), and comparisons agree.
"""
Fixed = cls('droop.values.fixed.Fixed')
Guarded = cls('droop.values.guarded.Guarded')


@lemma(props=['C13'])
def guarded_trichotomy(a: 'Guarded', b: 'Guarded'):
    requires(guarded_inv())
    lt = a < b
    eq = a == b
    gt = a > b
    ne = a != b
    le = a <= b
    ge = a >= b
    check(or_(and_(lt, not_(eq), not_(gt)), and_(not_(lt), eq, not_(gt)), and_(not_(lt), not_(eq), gt)),
          name='exactly one of <, ==, > holds')
    check(and_(ne == not_(eq), le == or_(lt, eq), ge == or_(gt, eq)), name='!=, <=, >= are derived consistently')
    check(implies(not_(eq), lt == (a._value < b._value)), name='unequal values order as their stored values do')
    check(eq == (2 * abs(a._value - b._value) < Guarded._Guarded__scaleg),
          name='equal exactly when they differ by less than half a unit of precision')


@specfn
def g0_link():
    "guard == 0, same precision: the two classes are configured alike"
    return and_(guarded_inv(), fixed_inv(), Guarded.guard == 0, Guarded.precision == Fixed.precision)


@lemma(props=['C13'])
def g0_unary_ops(ga: 'Guarded', fa: 'Fixed'):
    requires(g0_link())
    requires(ga._value == fa._value)
    g1 = -ga
    f1 = -fa
    g2 = +ga
    f2 = +fa
    g3 = abs(ga)
    f3 = abs(fa)
    check(g1._value == f1._value, name='guard 0: neg agrees')
    check(g2._value == f2._value, name='guard 0: pos agrees')
    check(g3._value == f3._value, name='guard 0: abs agrees')
    check(truthy(ga) == truthy(fa), name='guard 0: bool agrees')
    check(Guarded.exact == Fixed.exact, name='guard 0: exact flag agrees')
    check(Guarded.quasi_exact == Fixed.quasi_exact, name='guard 0: quasi_exact flag agrees')
    check(Guarded.epsilon._value == 1, name='guard 0: epsilon is one unit')


@lemma(props=['C13'])
def g0_comparisons(ga: 'Guarded', gb: 'Guarded', fa: 'Fixed', fb: 'Fixed'):
    requires(g0_link())
    requires(ga._value == fa._value)
    requires(gb._value == fb._value)
    check((ga == gb) == (fa == fb), name='guard 0: == agrees')
    check((ga != gb) == (fa != fb), name='guard 0: != agrees')
    check((ga < gb) == (fa < fb), name='guard 0: < agrees')
    check((ga <= gb) == (fa <= fb), name='guard 0: <= agrees')
    check((ga > gb) == (fa > fb), name='guard 0: > agrees')
    check((ga >= gb) == (fa >= fb), name='guard 0: >= agrees')


@lemma(props=['C13'])
def g0_binary_ops(ga: 'Guarded', gb: 'Guarded', fa: 'Fixed', fb: 'Fixed', k: 'int'):
    requires(g0_link())
    requires(ga._value == fa._value)
    requires(gb._value == fb._value)
    x1 = ga + gb
    y1 = fa + fb
    check(x1._value == y1._value, name='guard 0: add (value operand) agrees with Fixed')
    x2 = ga + k
    y2 = fa + k
    check(x2._value == y2._value, name='guard 0: add (int operand) agrees with Fixed')
    x3 = ga - gb
    y3 = fa - fb
    check(x3._value == y3._value, name='guard 0: sub (value operand) agrees with Fixed')
    x4 = ga - k
    y4 = fa - k
    check(x4._value == y4._value, name='guard 0: sub (int operand) agrees with Fixed')
    x5 = ga * gb
    y5 = fa * fb
    check(x5._value == y5._value, name='guard 0: mul (value operand) agrees with Fixed')
    x6 = ga * k
    y6 = fa * k
    check(x6._value == y6._value, name='guard 0: mul (int operand) agrees with Fixed')
    requires(gb._value != 0)
    requires(k != 0)
    x7 = ga / gb
    y7 = fa / fb
    check(x7._value == y7._value, name='guard 0: truediv (value operand) agrees with Fixed')
    x8 = ga / k
    y8 = fa / k
    check(x8._value == y8._value, name='guard 0: truediv (int operand) agrees with Fixed')
    x9 = ga // gb
    y9 = fa // fb
    check(x9._value == y9._value, name='guard 0: floordiv (value operand) agrees with Fixed')
    x10 = ga // k
    y10 = fa // k
    check(x10._value == y10._value, name='guard 0: floordiv (int operand) agrees with Fixed')


@lemma(props=['C13'])
def g0_rounded_ops(ga: 'Guarded', gb: 'Guarded', gc: 'Guarded', fa: 'Fixed', fb: 'Fixed', fc: 'Fixed', ka: 'int',
                   kb: 'int', kc: 'int'):
    "valid calls only (round is 'up' or 'down'): Fixed rejects anything else, Guarded ignores it"
    requires(g0_link())
    requires(ga._value == fa._value)
    requires(gb._value == fb._value)
    requires(gc._value == fc._value)
    requires(gb._value != 0)
    requires(gc._value != 0)
    requires(kb != 0)
    requires(kc != 0)
    x1 = Guarded.mul(ga, gb, round='up')
    y1 = Fixed.mul(fa, fb, round='up')
    check(x1._value == y1._value, name='guard 0: mul(v,v,round=up) agrees with Fixed')
    x2 = Guarded.div(ga, gb, round='up')
    y2 = Fixed.div(fa, fb, round='up')
    check(x2._value == y2._value, name='guard 0: div(v,v,round=up) agrees with Fixed')
    x3 = Guarded.muldiv(ga, gb, gc, round='up')
    y3 = Fixed.muldiv(fa, fb, fc, round='up')
    check(x3._value == y3._value, name='guard 0: muldiv(v,v,v,round=up) agrees with Fixed')
    x4 = Guarded.muldiv(ga, gb, kc, round='up')
    y4 = Fixed.muldiv(fa, fb, kc, round='up')
    check(x4._value == y4._value, name='guard 0: muldiv(v,v,int,round=up) agrees with Fixed')
    x5 = Guarded.mul(ga, kb, round='up')
    y5 = Fixed.mul(fa, kb, round='up')
    check(x5._value == y5._value, name='guard 0: mul(v,int,round=up) agrees with Fixed')
    x6 = Guarded.div(ga, kb, round='up')
    y6 = Fixed.div(fa, kb, round='up')
    check(x6._value == y6._value, name='guard 0: div(v,int,round=up) agrees with Fixed')
    x7 = Guarded.muldiv(ga, kb, gc, round='up')
    y7 = Fixed.muldiv(fa, kb, fc, round='up')
    check(x7._value == y7._value, name='guard 0: muldiv(v,int,v,round=up) agrees with Fixed')
    x8 = Guarded.muldiv(ga, kb, kc, round='up')
    y8 = Fixed.muldiv(fa, kb, kc, round='up')
    check(x8._value == y8._value, name='guard 0: muldiv(v,int,int,round=up) agrees with Fixed')
    x9 = Guarded.mul(ka, gb, round='up')
    y9 = Fixed.mul(ka, fb, round='up')
    check(x9._value == y9._value, name='guard 0: mul(int,v,round=up) agrees with Fixed')
    x10 = Guarded.div(ka, gb, round='up')
    y10 = Fixed.div(ka, fb, round='up')
    check(x10._value == y10._value, name='guard 0: div(int,v,round=up) agrees with Fixed')
    x11 = Guarded.muldiv(ka, gb, gc, round='up')
    y11 = Fixed.muldiv(ka, fb, fc, round='up')
    check(x11._value == y11._value, name='guard 0: muldiv(int,v,v,round=up) agrees with Fixed')
    x12 = Guarded.muldiv(ka, gb, kc, round='up')
    y12 = Fixed.muldiv(ka, fb, kc, round='up')
    check(x12._value == y12._value, name='guard 0: muldiv(int,v,int,round=up) agrees with Fixed')
    x13 = Guarded.mul(ka, kb, round='up')
    y13 = Fixed.mul(ka, kb, round='up')
    check(x13._value == y13._value, name='guard 0: mul(int,int,round=up) agrees with Fixed')
    x14 = Guarded.div(ka, kb, round='up')
    y14 = Fixed.div(ka, kb, round='up')
    check(x14._value == y14._value, name='guard 0: div(int,int,round=up) agrees with Fixed')
    x15 = Guarded.muldiv(ka, kb, gc, round='up')
    y15 = Fixed.muldiv(ka, kb, fc, round='up')
    check(x15._value == y15._value, name='guard 0: muldiv(int,int,v,round=up) agrees with Fixed')
    x16 = Guarded.muldiv(ka, kb, kc, round='up')
    y16 = Fixed.muldiv(ka, kb, kc, round='up')
    check(x16._value == y16._value, name='guard 0: muldiv(int,int,int,round=up) agrees with Fixed')
    x17 = Guarded.mul(ga, gb, round='down')
    y17 = Fixed.mul(fa, fb, round='down')
    check(x17._value == y17._value, name='guard 0: mul(v,v,round=down) agrees with Fixed')
    x18 = Guarded.div(ga, gb, round='down')
    y18 = Fixed.div(fa, fb, round='down')
    check(x18._value == y18._value, name='guard 0: div(v,v,round=down) agrees with Fixed')
    x19 = Guarded.muldiv(ga, gb, gc, round='down')
    y19 = Fixed.muldiv(fa, fb, fc, round='down')
    check(x19._value == y19._value, name='guard 0: muldiv(v,v,v,round=down) agrees with Fixed')
    x20 = Guarded.muldiv(ga, gb, kc, round='down')
    y20 = Fixed.muldiv(fa, fb, kc, round='down')
    check(x20._value == y20._value, name='guard 0: muldiv(v,v,int,round=down) agrees with Fixed')
    x21 = Guarded.mul(ga, kb, round='down')
    y21 = Fixed.mul(fa, kb, round='down')
    check(x21._value == y21._value, name='guard 0: mul(v,int,round=down) agrees with Fixed')
    x22 = Guarded.div(ga, kb, round='down')
    y22 = Fixed.div(fa, kb, round='down')
    check(x22._value == y22._value, name='guard 0: div(v,int,round=down) agrees with Fixed')
    x23 = Guarded.muldiv(ga, kb, gc, round='down')
    y23 = Fixed.muldiv(fa, kb, fc, round='down')
    check(x23._value == y23._value, name='guard 0: muldiv(v,int,v,round=down) agrees with Fixed')
    x24 = Guarded.muldiv(ga, kb, kc, round='down')
    y24 = Fixed.muldiv(fa, kb, kc, round='down')
    check(x24._value == y24._value, name='guard 0: muldiv(v,int,int,round=down) agrees with Fixed')
    x25 = Guarded.mul(ka, gb, round='down')
    y25 = Fixed.mul(ka, fb, round='down')
    check(x25._value == y25._value, name='guard 0: mul(int,v,round=down) agrees with Fixed')
    x26 = Guarded.div(ka, gb, round='down')
    y26 = Fixed.div(ka, fb, round='down')
    check(x26._value == y26._value, name='guard 0: div(int,v,round=down) agrees with Fixed')
    x27 = Guarded.muldiv(ka, gb, gc, round='down')
    y27 = Fixed.muldiv(ka, fb, fc, round='down')
    check(x27._value == y27._value, name='guard 0: muldiv(int,v,v,round=down) agrees with Fixed')
    x28 = Guarded.muldiv(ka, gb, kc, round='down')
    y28 = Fixed.muldiv(ka, fb, kc, round='down')
    check(x28._value == y28._value, name='guard 0: muldiv(int,v,int,round=down) agrees with Fixed')
    x29 = Guarded.mul(ka, kb, round='down')
    y29 = Fixed.mul(ka, kb, round='down')
    check(x29._value == y29._value, name='guard 0: mul(int,int,round=down) agrees with Fixed')
    x30 = Guarded.div(ka, kb, round='down')
    y30 = Fixed.div(ka, kb, round='down')
    check(x30._value == y30._value, name='guard 0: div(int,int,round=down) agrees with Fixed')
    x31 = Guarded.muldiv(ka, kb, gc, round='down')
    y31 = Fixed.muldiv(ka, kb, fc, round='down')
    check(x31._value == y31._value, name='guard 0: muldiv(int,int,v,round=down) agrees with Fixed')
    x32 = Guarded.muldiv(ka, kb, kc, round='down')
    y32 = Fixed.muldiv(ka, kb, kc, round='down')
    check(x32._value == y32._value, name='guard 0: muldiv(int,int,int,round=down) agrees with Fixed')
