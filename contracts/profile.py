"""
Contracts for droop/profile.py   (C15 post-parse invariants of the id helpers, C16 exception freedom)

Tokens are abstract strings (A-str): is_digit_string(t) is re.match(r'\\d+$', t); int() accepts a digit
string unless it is longer than CPython's conversion limit (int_accepts).
"""
Profile = cls('droop.profile.ElectionProfile')

schema('droop.profile.ElectionProfile',
       fields={'nCand': 'int', 'nSeats': 'int', 'nBallots': 'int', 'lineNumber': 'int', '_nickCid': 'ref:dict',
               'nickName': 'ref:dict', 'tieOrder': 'ref:dict', 'title': 'str', 'source': 'opt:str', 'comment': 'opt:str'})


@specfn
def nick_table_ok(p):
    "every nickname maps to a candidate id 1..nCand (established by __bltOptionNick / the default table)"
    return dict_int_values_between(p._nickCid, 1, p.nCand)


@contract('droop.profile.ElectionProfile.getCid', props=['C15', 'C16'])
def profile_getcid(self: 'Profile', nick: 'str|int', loc: 'int|str') -> 'any':
    "returns a candidate id in 1..nCand, or fails with the package's profile error (a numeral too long for int(): ValueError, converted by bltParse)"
    requires(nick_table_ok(self))
    raises(ElectionProfileError)
    raises(ValueError, when=and_(is_digit_string(nick), not_(int_accepts(nick))))
    ensures(any_is_int(result), name='the result is an int')
    ensures(and_(1 <= any_int_value(result), any_int_value(result) <= self.nCand), name='candidate id within 1..nCand')
    ensures(implies(and_(is_digit_string(nick), int_accepts(nick)), any_int_value(result) == int_value_of(nick)),
            name='a numeral denotes itself (numbers take precedence over nicknames)')
    if kind_of(nick) == 'str':
        ensures(implies(and_(not_(is_digit_string(nick)), dhas(self._nickCid, nick)),
                        any_eq(result, dval(self._nickCid, nick))),
                name='anything that is not a plain decimal numeral is a nickname: looked up in the table, never re-read as a number')
    modifies()
