"""
Contracts for the rules' count() bodies (L2): counters, status-writer call sites, loop variants.
The abstract view: ghost counters nH nE nD nW nP; E.quota; the collections C.hopeful() etc.
"""
WigmRule = cls('droop.rules.wigm.Rule')
Election = cls('droop.election.Election')
Candidate = cls('droop.candidate.Candidate')
Ballot = cls('droop.election.Election.Ballot')


@specfn
def count_entry(E):
    "state in which Election.count() hands over to rule.count(): nobody elected or defeated yet, a valid profile"
    s = E.electionProfile.nSeats
    return and_(is_the_election(E), ghost('nE') == 0, ghost('nD') == 0, ghost('nP') == 0, s >= 1, s <= ghost('nH'),
                E.electionProfile.nBallots >= ghost('nH'), E.round == 0,
                forall('ref:droop.election.Election.Ballot',
                       lambda b: implies(is_ballot(b), and_(b.index == 0, b.weight == E.V1, seq_len(b.ranking) >= 1, b.index <= seq_len(b.ranking),
                                                            is_whole(b.multiplier)))))


@specfn
def ledger_entry(E):
    """vote ledger at the hand-over (Election.count has just set every tally to zero): the ghost total T (all tallies + the
    non-transferable total) is the non-transferable total"""
    return and_(ghost('T') == E.exhausted,
                ghost('Tlog') == V_of_int(E.electionProfile.nBallots),      # "the step before the first": the ballots cast
                forall('ref:droop.candidate.Candidate', lambda c: implies(in_election(c), c.vote == E.V0)))


@specfn
def ledger_total(E):
    "W5: no vote has been created (none lost either under exact arithmetic)"
    N = V_of_int(E.electionProfile.nBallots)
    return ite(instance_is('real'), ghost('T') == N, ghost('T') <= N)


@specfn
def ledger_piles(E):
    "W6: the tally of every continuing candidate is the value of the ballots standing with that candidate"
    return forall('ref:droop.candidate.Candidate',
                  lambda c: implies(and_(in_election(c), or_(c.state == 'hopeful', and_(c.state == 'elected', truthy(c.pending)))),
                                    c.vote == ghost_at('G', c)))


@specfn
def ledger_nonneg(E):
    "no tally and no non-transferable total is negative"
    return and_(forall('ref:droop.candidate.Candidate', lambda c: implies(in_election(c), c.vote >= E.V0)), E.exhausted >= E.V0)


@contract('droop.rules.wigm_prf.Rule.count', props=['C01', 'C09'], site_props=['C02', 'C04', 'C06', 'C07'])
def wigm_prf_count(self: 'any_rule'):
    "statutory WIGM rule (fixed-point arithmetic): same counter-level contract as the parametric rule"
    E = self.E
    requires(count_entry(E))
    ensures(ghost('nH') == 0, name='every candidate is decided: nobody is left hopeful')
    ensures(ghost('nP') == 0, name='no transfer is left pending')
    ensures(ghost('nW') == old(ghost('nW')), name='withdrawn candidates never change')
    ensures(ghost('nE') >= E.electionProfile.nSeats, name='the seats are filled (W2)')
    modifies_all(Candidate, 'state', 'pending', 'vote')
    modifies_all(Ballot, 'index', 'weight')
    modifies(E, 'quota', 'exhausted', 'round', 'surplus')
    modifies_ghost('nH', 'nE', 'nD', 'nP', 'nlog', 'lasttag', 'lastmsg')


@contract('droop.rules.wigm_prf.Rule.count', props=['C02', 'C06'], ledger=True)
def wigm_prf_count_ledger(self: 'any_rule'):
    """the vote ledger of rule wigm-prf (no sure-loser batches: with defeat_batch the ballots of a whole set of candidates are
    moved in one sweep, which the ledger invariants do not cover; that variant stays with the bounded stand-in)"""
    E = self.E
    requires(count_entry(E))
    requires(ledger_entry(E))
    modifies_all(Candidate, 'state', 'pending', 'vote')
    modifies_all(Ballot, 'index', 'weight')
    modifies(E, 'quota', 'exhausted', 'round', 'surplus')
    modifies_ghost('nH', 'nE', 'nD', 'nP', 'nlog', 'lasttag', 'lastmsg', 'T', 'G', 'Tlog')


@contract('droop.rules.scotland.Rule.count', props=['C01', 'C09'], site_props=['C02', 'C04', 'C06', 'C07'], ledger=True)
def scotland_count(self: 'any_rule'):
    "Scottish rule (fixed-point arithmetic): counter-level contract and the vote ledger"
    E = self.E
    requires(count_entry(E))
    requires(ledger_entry(E))
    ensures(ghost('nH') == 0, name='every candidate is decided: nobody is left hopeful')
    ensures(ghost('nP') == 0, name='no transfer is left pending')
    ensures(ghost('nW') == old(ghost('nW')), name='withdrawn candidates never change')
    ensures(ghost('nE') >= E.electionProfile.nSeats, name='the seats are filled (W2)')
    modifies_all(Candidate, 'state', 'pending', 'vote')
    modifies_all(Ballot, 'index', 'weight')
    modifies(E, 'quota', 'exhausted', 'round', 'surplus')
    modifies_ghost('nH', 'nE', 'nD', 'nP', 'nlog', 'lasttag', 'lastmsg', 'T', 'G', 'Tlog')


@loops(['droop.rules.wigm_prf.Rule.count', 'droop.rules.scotland.Rule.count'], anchor='while#1')
def wigm_prf_main_loop(self):
    E = self.E
    invariant(forall('ref:droop.candidate.Candidate',
                     lambda c: implies(and_(in_election(c), c.state == 'elected', truthy(c.pending)), holds_quota(c, E))))
    invariant(E.quota > E.V0)
    invariant(E.round >= 0)
    invariant(ghost('nH') + ghost('nE') >= E.electionProfile.nSeats)
    invariant(forall('ref:droop.candidate.Candidate',
                     lambda c: implies(and_(in_election(c), c.state == 'elected', not_(truthy(c.pending))), c.vote == E.quota)),
              props=['C06'])      # a candidate whose surplus has been transferred keeps exactly the quota
    invariant(forall('ref:droop.candidate.Candidate',
                     lambda c: implies(and_(in_election(c), c.state == 'defeated'), c.vote == E.V0)),
              props=['C06'])      # an excluded candidate holds no votes
    invariant(implies(ledger_on(), ledger_total(E)), props=['C02'])
    invariant(implies(ledger_on(), ledger_piles(E)), props=['C02', 'C06'])
    invariant(implies(ledger_on(), ledger_nonneg(E)), props=['C02'])
    variant(2 * ghost('nH') + ghost('nP'))


BATCH_DEFEATS = ['droop.rules.wigm_prf.Rule.count.<locals>.batchDefeat', 'droop.rules.cfer.Rule.count.<locals>.batchDefeat']


@contract(BATCH_DEFEATS, props=['C07', 'C01'], free={'E': 'Election', 'C': 'Candidates'},
          trusted='grouped / sliced prefix scan over a sorted list built with list.append: outside the verified subset; '
                  'its postcondition is checked by the bounded stand-in on the mechanically extracted closure (DESIGN 6/C07)')
def batch_defeat() -> 'abs:Candidate':
    "sure losers: all hopeful, and enough hopefuls remain to fill the seats"
    ensures(forall(result, lambda c: and_(in_election(c), c.state == 'hopeful')))
    ensures(length(result) >= 0)
    ensures(length(result) <= ghost('nH') - (E.electionProfile.nSeats - ghost('nE')), name='enough candidates remain')
    modifies()


@contract('droop.rules.wigm.Rule.count', props=['C01', 'C09'], site_props=['C02', 'C04', 'C06', 'C07'], instances=['scaled', 'real'],
          ledger=True)
def wigm_count(self: 'WigmRule'):
    E = self.E
    requires(count_entry(E))
    requires(ledger_entry(E))
    ensures(ghost('nH') == 0, name='every candidate is decided: nobody is left hopeful')
    ensures(ghost('nP') == 0, name='no transfer is left pending')
    ensures(ghost('nW') == old(ghost('nW')), name='withdrawn candidates never change')
    ensures(ghost('nE') >= E.electionProfile.nSeats, name='the seats are filled (W2)')
    modifies_all(Candidate, 'state', 'pending', 'vote')
    modifies_all(Ballot, 'index', 'weight')
    modifies(E, 'quota', 'exhausted', 'round', 'surplus')
    modifies_ghost('nH', 'nE', 'nD', 'nP', 'nlog', 'lasttag', 'lastmsg', 'T', 'G', 'Tlog')


@specfn
def holds_quota(c, E):
    "the rule's own 'has a quota' test (strict under exact arithmetic)"
    if exact_arith():
        return c.vote > E.quota
    return c.vote >= E.quota


@loops('droop.rules.wigm.Rule.count', anchor='while#1')
def wigm_main_loop(self):
    E = self.E
    invariant(forall('ref:droop.candidate.Candidate',
                     lambda c: implies(and_(in_election(c), c.state == 'elected', truthy(c.pending)), holds_quota(c, E))))
    invariant(E.quota > E.V0)
    invariant(ghost('nH') + ghost('nE') >= E.electionProfile.nSeats)       # W2: enough candidates remain to fill the seats
    invariant(forall('ref:droop.candidate.Candidate',
                     lambda c: implies(and_(in_election(c), c.state == 'elected', not_(truthy(c.pending))), c.vote == E.quota)),
              props=['C06'])      # a candidate whose surplus has been transferred keeps exactly the quota
    invariant(forall('ref:droop.candidate.Candidate',
                     lambda c: implies(and_(in_election(c), c.state == 'defeated'), c.vote == E.V0)),
              props=['C06'])      # an excluded candidate holds no votes
    invariant(implies(ledger_on(), ledger_total(E)), props=['C02'])
    invariant(implies(ledger_on(), ledger_piles(E)), props=['C02', 'C06'])
    invariant(implies(ledger_on(), ledger_nonneg(E)), props=['C02'])
    variant(2 * ghost('nH') + ghost('nP'))


@loops('droop.rules.wigm.Rule.count', anchor='for#5')
def wigm_batch_exclusion_loop(self):
    "transferring the ballots of each candidate excluded in a batch: every step leaves the ledger as it found it"
    invariant(implies(ledger_on(), ghost('T') == old(ghost('T'))), props=['C02'])
    invariant(implies(ledger_on(), ledger_nonneg(self.E)), props=['C02'])
    invariant(implies(ledger_on(), forall('ref:droop.candidate.Candidate',
                                          lambda c: implies(in_election(c),
                                                            c.vote - ghost_at('G', c) == old(c.vote - ghost_at('G', c))))),
              props=['C02', 'C06'])


# --------------------------------------------------------------------------------------------- Minneapolis
MplsRule = cls('droop.rules.mpls.Rule')


@contract('droop.rules.mpls.Rule.count.<locals>.findCertainLosers', props=['C07', 'C01'], free={'E': 'Election', 'C': 'Candidates'},
          trusted='prefix scan over the vote-sorted hopefuls built with list.append / list(): outside the verified subset; its '
                  'postcondition (sure losers; enough remain) is checked by the bounded stand-in')
def find_certain_losers(surplus: 'val', exclude: 'abs:Candidate|list0' = ()) -> 'abs:Candidate':
    "certain losers: hopeful, not among this round's write-ins, and enough hopefuls remain to fill the seats"
    ensures(forall(result, lambda c: and_(in_election(c), c.state == 'hopeful')))
    ensures(forall(result, lambda c: not_(mem_opt(exclude, c))), name='disjoint from the write-ins defeated in the same round')
    ensures(length(result) >= 0)
    ensures(length(result) <= ghost('nH') - length_opt(exclude) - (E.electionProfile.nSeats - ghost('nE')) + slack0(exclude),
            name='enough candidates remain')
    modifies()


@contract('droop.rules.mpls.Rule.count', props=['C01', 'C09'], site_props=['C02', 'C04', 'C06', 'C07'], ledger=True)
def mpls_count(self: 'MplsRule'):
    E = self.E
    requires(count_entry(E))
    requires(ledger_entry(E))
    ensures(ghost('nH') == 0, name='every candidate is decided: nobody is left hopeful')
    ensures(ghost('nP') == 0, name='no transfer is left pending')
    ensures(ghost('nW') == old(ghost('nW')), name='withdrawn candidates never change')
    modifies_all(Candidate, 'state', 'pending', 'vote')
    modifies_all(Ballot, 'index', 'weight')
    modifies(E, 'quota', 'exhausted', 'round', 'surplus')
    modifies_ghost('nH', 'nE', 'nD', 'nP', 'nlog', 'lasttag', 'lastmsg', 'T', 'G', 'Tm', 'Tlog')


@loops('droop.rules.mpls.Rule.count', anchor='while#1')
def mpls_main_loop(self):
    E = self.E
    invariant(E.round >= 1)
    invariant(implies(E.round == 1, forall('ref:droop.election.Election.Ballot', lambda b: implies(is_ballot(b), b.index == 0))))
    invariant(E.quota > E.V0)
    invariant(forall('ref:droop.candidate.Candidate',
                     lambda c: implies(and_(in_election(c), c.state == 'elected', not_(truthy(c.pending))), c.vote == E.quota)),
              props=['C06'])      # a candidate whose surplus has been transferred keeps exactly the quota
    invariant(ghost('nP') == 0)       # Minneapolis never leaves a transfer pending
    invariant(implies(ledger_on(), ledger_total(E)), props=['C02'])
    invariant(implies(ledger_on(), ledger_piles(E)), props=['C02', 'C06'])
    invariant(implies(ledger_on(), ledger_nonneg(E)), props=['C02'])
    variant(ghost('nH'))


# --------------------------------------------------------------------------------------------- CfER
@contract('droop.rules.cfer.Rule.count', props=['C01', 'C09'], site_props=['C02', 'C04', 'C06', 'C07'], ledger=True)
def cfer_count(self: 'any_rule'):
    "CfER without batch exclusions (rule 'cfer'; fixed-point arithmetic): counter-level contract and the vote ledger"
    E = self.E
    requires(count_entry(E))
    requires(ledger_entry(E))
    requires(not_(truthy(self.defeat_batch)))
    ensures(ghost('nH') == 0, name='every candidate is decided: nobody is left hopeful')
    ensures(ghost('nP') == 0, name='no transfer is left pending')
    ensures(ghost('nW') == old(ghost('nW')), name='withdrawn candidates never change')
    ensures(ghost('nE') >= E.electionProfile.nSeats, name='the seats are filled (W2)')
    modifies_all(Candidate, 'state', 'pending', 'vote')
    modifies_all(Ballot, 'index', 'weight')
    modifies(E, 'quota', 'exhausted', 'round', 'surplus')
    modifies_ghost('nH', 'nE', 'nD', 'nP', 'nlog', 'lasttag', 'lastmsg', 'T', 'G', 'Tlog')


@contract('droop.rules.cfer.Rule.count', props=['C01', 'C09'], site_props=['C02', 'C04', 'C06', 'C07'], ledger=True)
def cfer_batch_count(self: 'any_rule'):
    "CfER with 10059(k) batch exclusions (rule 'cfer-batch'): the same contract (two contracts so that the two variants are generated in parallel)"
    E = self.E
    requires(count_entry(E))
    requires(ledger_entry(E))
    requires(truthy(self.defeat_batch))
    ensures(ghost('nH') == 0, name='every candidate is decided: nobody is left hopeful')
    ensures(ghost('nP') == 0, name='no transfer is left pending')
    ensures(ghost('nW') == old(ghost('nW')), name='withdrawn candidates never change')
    ensures(ghost('nE') >= E.electionProfile.nSeats, name='the seats are filled (W2)')
    modifies_all(Candidate, 'state', 'pending', 'vote')
    modifies_all(Ballot, 'index', 'weight')
    modifies(E, 'quota', 'exhausted', 'round', 'surplus')
    modifies_ghost('nH', 'nE', 'nD', 'nP', 'nlog', 'lasttag', 'lastmsg', 'T', 'G', 'Tlog')


@loops('droop.rules.cfer.Rule.count', anchor='for#3')
def cfer_elect_loop(self):
    "10059(d)-(f): a candidate reaching the threshold is elected; the surplus transfer is pending iff the tally exceeds the threshold"
    E = self.E
    invariant(forall('ref:droop.candidate.Candidate',
                     lambda c: implies(and_(in_election(c), c.state == 'elected', truthy(c.pending)), c.vote > E.quota)))
    invariant(ghost('nP') <= old(ghost('nP')) + it)      # at most one more pending transfer per candidate elected


@loops('droop.rules.cfer.Rule.count', anchor='for#7')
def cfer_surplus_loop(self):
    "10059(g): every pending surplus is transferred in the same round, one elected candidate after the other"
    E = self.E
    invariant(forall('ref:droop.candidate.Candidate',
                     lambda c: implies(and_(in_election(c), c.state == 'elected', truthy(c.pending)), c.vote > E.quota)))
    invariant(E.quota > E.V0)
    invariant(ghost('nP') == old(ghost('nP')) - it)
    invariant(ghost('nH') == old(ghost('nH')))
    invariant(ghost('nE') == old(ghost('nE')))
    invariant(ghost('nD') == old(ghost('nD')))
    invariant(implies(ledger_on(), ghost('T') <= old(ghost('T'))), props=['C02'])      # each surplus transfer can only lose value
    invariant(implies(ledger_on(), ledger_piles(E)), props=['C02', 'C06'])
    invariant(implies(ledger_on(), ledger_nonneg(E)), props=['C02'])


@loops('droop.rules.cfer.Rule.count', anchor='while#1')
def cfer_main_loop(self):
    E = self.E
    invariant(forall('ref:droop.candidate.Candidate',
                     lambda c: implies(and_(in_election(c), c.state == 'elected', truthy(c.pending)), c.vote > E.quota)))
    invariant(E.quota > E.V0)
    invariant(E.round >= 0)
    invariant(ghost('nH') + ghost('nE') >= E.electionProfile.nSeats)
    invariant(implies(ledger_on(), ledger_total(E)), props=['C02'])
    invariant(implies(ledger_on(), ledger_piles(E)), props=['C02', 'C06'])
    invariant(implies(ledger_on(), ledger_nonneg(E)), props=['C02'])
    invariant(implies(E.round == 0, and_(ghost('nP') == 0, ghost('nE') == 0)))      # before the first round nobody is elected
    invariant(implies(E.round >= 1, ghost('nH') + ghost('nE') > E.electionProfile.nSeats))     # else the previous round ended the count
    variant(2 * ghost('nH') + ghost('nP'))
