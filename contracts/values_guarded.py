"""
Contracts for droop/values/guarded.py   (C13 tolerance law and operations, C14 printing)

v(x) = x._value ; S = 10**(precision+guard) ; G = 10**guard ; geps = G/2 (1 when guard == 0).
"""
Guarded = cls('droop.values.guarded.Guarded')

schema('droop.values.guarded.Guarded',
       fields={'_value': 'int'},
       cattrs={'precision': 'int', 'guard': 'int', 'display': 'int',
               '_Guarded__scale': 'int', '_Guarded__scalep': 'int', '_Guarded__scaleg': 'int',
               '_Guarded__scaled': 'int', '_Guarded__scaledd': 'int', '_Guarded__scaledr': 'int',
               '_Guarded__scaledg': 'int', '_Guarded__dfmt': 'str', '_Guarded__geps': 'int',
               'maxDiff': 'int', 'minDiff': 'int', 'epsilon': 'ref:droop.values.guarded.Guarded',
               'exact': 'bool', 'quasi_exact': 'bool', 'info': 'str'})
# Guarded.name is the class-body constant 'guarded'


@specfn
def guarded_inv():
    "class state established by Guarded.initialize (proved there)"
    p = Guarded.precision
    g = Guarded.guard
    d = Guarded.display
    G = Guarded._Guarded__scaleg
    return and_(p >= 0, g >= 0, d >= 0, d <= p + g,
                Guarded._Guarded__scale == pow10(p + g),
                Guarded._Guarded__scalep == pow10(p),
                G == pow10(g),
                Guarded._Guarded__scaled == pow10(d),
                Guarded._Guarded__scaledd == pow10(p + g - d),
                Guarded._Guarded__scaledr == Guarded._Guarded__scaledd // 2,
                implies(d > p, Guarded._Guarded__scaledg == pow10(d - p)),
                Guarded._Guarded__geps == ite(G // 2 == 0, 1, G // 2),
                ite(d <= p, is_dfmt(Guarded._Guarded__dfmt, d), is_dfmt_g(Guarded._Guarded__dfmt, p, d - p)),
                Guarded.exact == (g != 0), Guarded.quasi_exact == (g != 0),
                implies(g == 0, Guarded.epsilon._value == 1))


@specfn
def gS():
    return Guarded._Guarded__scale


@specfn
def glift(x):
    if is_int(x):
        return x * Guarded._Guarded__scale
    return x._value


@specfn
def stats_recorded(a, b):
    """every comparison is recorded in the class statistics (what the arithmetic report and C13's "clean statistics"
    clause read): the largest difference treated as equal, the smallest treated as different"""
    gd = abs(a - b)
    e = Guarded._Guarded__geps
    return and_(Guarded.maxDiff == ite(and_(e > gd, gd > old(Guarded.maxDiff)), gd, old(Guarded.maxDiff)),
                Guarded.minDiff == ite(and_(e <= gd, gd < old(Guarded.minDiff)), gd, old(Guarded.minDiff)))


@specfn
def geq(a, b):
    "the tolerance relation: equal iff they differ by less than half a unit of the declared precision"
    return 2 * abs(a - b) < Guarded._Guarded__scaleg


@contract('droop.values.guarded.Guarded.__init__', props=['C13'])
def guarded_init(self: 'Guarded', arg: 'int|Guarded', setval: 'bool' = False):
    if is_int(arg):
        ensures(self._value == ite(setval, arg, arg * gS()))
    else:
        requires(not_(setval))
        ensures(self._value == arg._value)
    modifies(self, '_value')


@contract('droop.values.guarded.Guarded.__add__', props=['C13'])
def guarded_add(self: 'Guarded', other: 'int|Guarded') -> 'Guarded':
    requires(guarded_inv())
    ensures(result._value == self._value + glift(other))
    ensures(fresh(result))
    modifies()


@contract('droop.values.guarded.Guarded.__sub__', props=['C13'])
def guarded_sub(self: 'Guarded', other: 'int|Guarded') -> 'Guarded':
    requires(guarded_inv())
    ensures(result._value == self._value - glift(other))
    ensures(fresh(result))
    modifies()


@contract('droop.values.guarded.Guarded.__neg__', props=['C13'])
def guarded_neg(self: 'Guarded') -> 'Guarded':
    requires(guarded_inv())
    ensures(result._value == -self._value)
    ensures(fresh(result))
    modifies()


@contract('droop.values.guarded.Guarded.__pos__', props=['C13'])
def guarded_pos(self: 'Guarded') -> 'Guarded':
    requires(guarded_inv())
    ensures(result._value == self._value)
    ensures(fresh(result))
    modifies()


@contract('droop.values.guarded.Guarded.__abs__', props=['C13'])
def guarded_abs(self: 'Guarded') -> 'Guarded':
    requires(guarded_inv())
    ensures(result._value == abs(self._value))
    ensures(fresh(result))
    modifies()


@contract('droop.values.guarded.Guarded.__bool__', props=['C13'])
def guarded_bool(self: 'Guarded') -> 'bool':
    requires(guarded_inv())
    ensures(result == (self._value != 0))
    modifies()


@contract('droop.values.guarded.Guarded.__mul__', props=['C13'])
def guarded_mul(self: 'Guarded', other: 'int|Guarded') -> 'Guarded':
    requires(guarded_inv())
    if is_int(other):
        ensures(result._value == self._value * other)
    else:
        ensures(floor_of(result._value, self._value * other._value, gS()))
    ensures(fresh(result))
    modifies()


@contract('droop.values.guarded.Guarded.__floordiv__', props=['C13'])
def guarded_floordiv(self: 'Guarded', other: 'int|Guarded') -> 'Guarded':
    requires(guarded_inv())
    if is_int(other):
        raises(ZeroDivisionError, when=other == 0)
        ensures(floor_of(result._value, self._value, other))
    else:
        raises(ZeroDivisionError, when=other._value == 0)
        ensures(floor_of(result._value, self._value * gS(), other._value))
    ensures(fresh(result))
    modifies()


@contract('droop.values.guarded.Guarded.mul', props=['C13'])
def guarded_cmul(arg1: 'int|Guarded', arg2: 'int|Guarded', round: 'str|none' = None) -> 'Guarded':
    "with guard digits the result is truncated (round is ignored); with guard == 0 it is Fixed.mul"
    requires(guarded_inv())
    a = glift(arg1)
    b = glift(arg2)
    if and_(Guarded.guard == 0, round == 'up'):
        ensures(ceil_of(result._value, a * b, gS()))
    else:
        ensures(floor_of(result._value, a * b, gS()))
    ensures(fresh(result))
    modifies()


@contract('droop.values.guarded.Guarded.div', props=['C13'])
def guarded_cdiv(arg1: 'int|Guarded', arg2: 'int|Guarded', round: 'str|none' = None) -> 'Guarded':
    requires(guarded_inv())
    a = glift(arg1)
    b = glift(arg2)
    raises(ZeroDivisionError, when=b == 0)
    if and_(Guarded.guard == 0, round == 'up'):
        ensures(ceil_of(result._value, a * gS(), b))
    else:
        ensures(floor_of(result._value, a * gS(), b))
    ensures(fresh(result))
    modifies()


@contract('droop.values.guarded.Guarded.muldiv', props=['C13'])
def guarded_cmuldiv(arg1: 'int|Guarded', arg2: 'int|Guarded', arg3: 'int|Guarded', round: 'str|none' = None) -> 'Guarded':
    requires(guarded_inv())
    a = glift(arg1)
    b = glift(arg2)
    c = glift(arg3)
    raises(ZeroDivisionError, when=c == 0)
    if and_(Guarded.guard == 0, round == 'up'):
        ensures(ceil_of(result._value, a * b, c))
    else:
        ensures(floor_of(result._value, a * b, c))
    ensures(fresh(result))
    modifies()


@contract('droop.values.guarded.Guarded.__cmp__', props=['C13'])
def guarded_cmp(self: 'Guarded', other: 'Guarded') -> 'int':
    "tolerance law: 0 iff |a-b| < half a unit of precision, else the sign of a-b; only statistics are written"
    requires(guarded_inv())
    a = self._value
    b = other._value
    ensures((result == 0) == geq(a, b))
    ensures(implies(result != 0, result == ite(a > b, 1, -1)))
    ensures(or_(result == 0, result == 1, result == -1))
    ensures(stats_recorded(a, b), name='the comparison is recorded in the statistics')
    modifies(Guarded, 'maxDiff', 'minDiff')


@contract('droop.values.guarded.Guarded.__eq__', props=['C13'])
def guarded_eq(self: 'Guarded', other: 'Guarded') -> 'bool':
    requires(guarded_inv())
    ensures(result == geq(self._value, other._value))
    ensures(stats_recorded(self._value, other._value), name='the comparison is recorded in the statistics')
    modifies(Guarded, 'maxDiff', 'minDiff')


@contract('droop.values.guarded.Guarded.__ne__', props=['C13'])
def guarded_ne(self: 'Guarded', other: 'Guarded') -> 'bool':
    requires(guarded_inv())
    ensures(result == not_(geq(self._value, other._value)))
    ensures(stats_recorded(self._value, other._value), name='the comparison is recorded in the statistics')
    modifies(Guarded, 'maxDiff', 'minDiff')


@contract('droop.values.guarded.Guarded.__lt__', props=['C13'])
def guarded_lt(self: 'Guarded', other: 'Guarded') -> 'bool':
    requires(guarded_inv())
    ensures(result == and_(not_(geq(self._value, other._value)), self._value < other._value))
    ensures(stats_recorded(self._value, other._value), name='the comparison is recorded in the statistics')
    modifies(Guarded, 'maxDiff', 'minDiff')


@contract('droop.values.guarded.Guarded.__le__', props=['C13'])
def guarded_le(self: 'Guarded', other: 'Guarded') -> 'bool':
    requires(guarded_inv())
    ensures(result == or_(geq(self._value, other._value), self._value < other._value))
    ensures(stats_recorded(self._value, other._value), name='the comparison is recorded in the statistics')
    modifies(Guarded, 'maxDiff', 'minDiff')


@contract('droop.values.guarded.Guarded.__gt__', props=['C13'])
def guarded_gt(self: 'Guarded', other: 'Guarded') -> 'bool':
    requires(guarded_inv())
    ensures(result == and_(not_(geq(self._value, other._value)), self._value > other._value))
    ensures(stats_recorded(self._value, other._value), name='the comparison is recorded in the statistics')
    modifies(Guarded, 'maxDiff', 'minDiff')


@contract('droop.values.guarded.Guarded.__ge__', props=['C13'])
def guarded_ge(self: 'Guarded', other: 'Guarded') -> 'bool':
    requires(guarded_inv())
    ensures(result == or_(geq(self._value, other._value), self._value > other._value))
    ensures(stats_recorded(self._value, other._value), name='the comparison is recorded in the statistics')
    modifies(Guarded, 'maxDiff', 'minDiff')


@contract('droop.values.guarded.Guarded.__str__', props=['C14'])
def guarded_str(self: 'Guarded') -> 'str':
    "printed numeral = exact value rounded half-up at `display` digits; guard digits after '_' when display > precision"
    requires(guarded_inv())
    v = self._value
    S = gS()
    D = pow10(Guarded.display)
    n = (2 * v * D + S) // (2 * S)
    ensures(str_denotes(result, n, D), name='printed numeral == value rounded half-up at display digits')
    ensures(implies(Guarded.display > Guarded.precision, has_underscore(result)), name='guard digits set off after an underscore')
    modifies()
