"""
Contracts for the three initialize() class methods and ArithmeticClass   (C20, C17, C12/C13/C14 class state)

initialize is verified from an ARBITRARY prior class state (nothing is assumed about the class
attributes): the postcondition says the class invariant holds with precision/display/guard
determined by the options alone, and the REL obligations generated for `class_state=` say that
no class attribute is read before it is assigned and every attribute is assigned on every
returning path (so nothing of an earlier election's configuration survives).
"""
Fixed = cls('droop.values.fixed.Fixed')
Guarded = cls('droop.values.guarded.Guarded')
Rational = cls('droop.values.rational.Rational')
Options = cls('droop.options.Options')


@specfn
def not_set(o, k):
    "no layer mentions the option (an explicit None value is a different thing)"
    return not_(or_(dhas(o.force, k), dhas(o.cmd_options, k), dhas(o.file_options, k), dhas(o.default, k)))


@specfn
def opt_int(o, name):
    return any_int_value(effective(o, name))


@contract('droop.values.fixed.Fixed.initialize', props=['C20', 'C17', 'C12', 'C14', 'C04'],
          class_state='droop.values.fixed.Fixed')
def fixed_initialize(options: 'Options'):
    requires(opt_inv(options))
    arith = effective(options, 'arithmetic')
    raises(UsageError)
    raises(TypeError)       # int(None): only when no precision is configured at all
    ensures(fixed_inv(), name='class invariant established from any prior class state')
    ensures(or_(any_same(arith, any_of('fixed')), any_same(arith, any_of('integer'))))
    p = effective(options, 'precision')
    ensures(implies(any_is_int(p), Fixed.precision == any_int_value(p)), name='precision is the configured one')
    ensures(implies(any_same(old(arith), any_of('integer')), Fixed.precision == 0), name='integer arithmetic is the zero-place case')
    d = effective(options, 'display')
    ensures(implies(any_is_int(d),
                    Fixed.display == ite(or_(any_int_value(d) < 0, any_int_value(d) > Fixed.precision), Fixed.precision,
                                         any_int_value(d))), name='display digits: configured, clamped to precision')
    ensures(Fixed.epsilon._value == 1, name='epsilon is one unit in the last place')
    ensures(layers_kept(options))
    ensures(any_same(effective(options, 'arithmetic'), old(effective(options, 'arithmetic'))),
            name='the arithmetic option itself is left alone')
    modifies_dict(options.default)
    modifies_dict(options.force)
    modifies_dict(options.allowed)
    modifies(Fixed, 'name', 'precision', 'display', '_Fixed__scale', '_Fixed__scaled', '_Fixed__scaledd', '_Fixed__scaledr',
             'epsilon', '_Fixed__dfmt', 'info')


@contract('droop.values.guarded.Guarded.initialize', props=['C20', 'C17', 'C13', 'C14'],
          class_state='droop.values.guarded.Guarded',
          may_keep={'epsilon': 'guard > 0: never read when V.exact (site obligation epsilon-read)',
                    '_Guarded__scaledg': 'display <= precision: __str__ is proved for every value of it in that case'})
def guarded_initialize(options: 'Options'):
    requires(opt_inv(options))
    raises(UsageError)
    raises(TypeError)
    ensures(guarded_inv(), name='class invariant established from any prior class state')
    ensures(any_same(effective(options, 'arithmetic'), any_of('guarded')))
    p = effective(options, 'precision')
    g = effective(options, 'guard')
    d = effective(options, 'display')
    ensures(implies(any_is_int(p), Guarded.precision == any_int_value(p)))
    ensures(implies(any_is_int(g), Guarded.guard == any_int_value(g)))
    ensures(implies(any_is_int(d), Guarded.display == ite(any_int_value(d) > Guarded.precision + Guarded.guard,
                                                          Guarded.precision + Guarded.guard, any_int_value(d))))
    ensures(and_(Guarded.maxDiff == 0, Guarded.minDiff == 100 * Guarded._Guarded__scale),
            name='comparison statistics are reset')
    ensures(layers_kept(options))
    ensures(any_same(effective(options, 'arithmetic'), old(effective(options, 'arithmetic'))),
            name='the arithmetic option itself is left alone')
    modifies_dict(options.default)
    modifies_dict(options.force)
    modifies_dict(options.allowed)
    modifies(Guarded, 'precision', 'guard', 'display', '_Guarded__scale', '_Guarded__scalep', '_Guarded__scaleg',
             '_Guarded__scaled', '_Guarded__scaledd', '_Guarded__scaledr', '_Guarded__scaledg', '_Guarded__dfmt',
             '_Guarded__geps', 'maxDiff', 'minDiff', 'epsilon', 'exact', 'quasi_exact', 'info')


@contract('droop.values.rational.Rational.initialize', props=['C20', 'C17', 'C14'], instance='real',
          class_state='droop.values.rational.Rational',
          may_keep={'_Rational__default_denominator': 'assigned only on Pythons whose Fraction rejects a None denominator; '
                                                      'when assigned it is the constant 1'})
def rational_initialize(options: 'Options'):
    requires(opt_inv(options))
    d0 = effective(options, 'display')
    requires(or_(not_set(options, 'display'), and_(any_is_int(d0), any_int_value(d0) >= 0)),
             name='display is unset or a non-negative int')
    ensures(rational_inv(), name='class invariant established from any prior class state')
    d = effective(options, 'display')
    ensures(Rational.dp == ite(old(not_set(options, 'display')), 12, any_int_value(old(d0))), name='display digits: configured, default 12')
    ensures(layers_kept(options))
    ensures(any_same(effective(options, 'arithmetic'), old(effective(options, 'arithmetic'))),
            name='the arithmetic option itself is left alone')
    modifies_dict(options.default)
    modifies_dict(options.force)
    modifies_dict(options.allowed)
    modifies(Rational, 'dp', '_dps', '_dpr', '_dfmt', '_Rational__default_denominator')


@contract('droop.values.ArithmeticClass', props=['C20', 'C17'])
def arithmetic_class(options: 'Options'):
    "initialises exactly the class named by the effective 'arithmetic' option (default guarded) and returns it"
    requires(opt_inv(options))
    d0 = effective(options, 'display')
    requires(or_(not_set(options, 'display'), and_(any_is_int(d0), any_int_value(d0) >= 0)),
             name='display is unset or a non-negative int')
    raises(UsageError)
    raises(TypeError)
    raises(ArithmeticValuesError)
    a = effective(options, 'arithmetic')
    ensures(implies(any_same(a, any_of('rational')), and_(rational_inv(), returned_class('Rational'))))
    ensures(implies(or_(any_same(a, any_of('fixed')), any_same(a, any_of('integer'))), and_(fixed_inv(), returned_class('Fixed'))))
    ensures(implies(any_same(a, any_of('guarded')), and_(guarded_inv(), returned_class('Guarded'))))
    ensures(or_(any_same(a, any_of('rational')), any_same(a, any_of('fixed')), any_same(a, any_of('integer')),
                any_same(a, any_of('guarded'))))
    ensures(implies(old(not_set(options, 'arithmetic')), any_same(a, any_of('guarded'))), name='default arithmetic is guarded')
