"""
Contracts for the closures every rule's count() defines: hasQuota, calcQuota, transfer, breakTie.
One contract text is bound to the same-named closure of several rule modules.
Free variables of the closures (E, C, V, V0, self) are declared with free={...}.
"""
Candidate = cls('droop.candidate.Candidate')
Candidates = cls('droop.candidates.Candidates')
Election = cls('droop.election.Election')
Ballot = cls('droop.election.Election.Ballot')
WigmRule = cls('droop.rules.wigm.Rule')

schema('droop.rules.wigm.Rule', fields={'E': 'ref:droop.election.Election', 'integer_quota': 'any', 'defeat_batch': 'any'})

FREE_E = {'E': 'Election'}


# --------------------------------------------------------------------------------------------- C04 comparator
@contract(['droop.rules.wigm.Rule.count.<locals>.hasQuota', 'droop.rules.meek.Rule.count.<locals>.hasQuota'],
          props=['C04'], free={'E': 'Election'}, instances=['scaled', 'guarded', 'real'])
def has_quota_parametric(candidate: 'Candidate') -> 'bool':
    "a candidate has a quota iff the tally strictly exceeds it under exact arithmetic, reaches it otherwise"
    if exact_arith():
        ensures(result == (candidate.vote > E.quota))
    else:
        ensures(result == (candidate.vote >= E.quota))
    modifies()


@contract(['droop.rules.wigm_prf.Rule.count.<locals>.hasQuota', 'droop.rules.cfer.Rule.count.<locals>.hasQuota',
           'droop.rules.scotland.Rule.count.<locals>.hasQuota', 'droop.rules.mpls.Rule.count.<locals>.hasQuota'],
          props=['C04', 'C03'], free={'E': 'Election'})
def has_quota_statutory(candidate: 'Candidate') -> 'bool':
    "statutory WIGM rules: tally greater than or equal to the quota / threshold"
    ensures(result == (candidate.vote >= E.quota))
    modifies()


@contract('droop.rules.cfer.Rule.count.<locals>.hasSurplus', props=['C03'], free={'E': 'Election'})
def has_surplus_cfer(candidate: 'Candidate') -> 'bool':
    ensures(result == (candidate.vote > E.quota))
    modifies()


# --------------------------------------------------------------------------------------------- C04 quota
@contract('droop.rules.wigm.Rule.count.<locals>.calcQuota', props=['C04'],
          free={'E': 'Election', 'V': 'vclass', 'self': 'WigmRule'}, instances=['scaled', 'guarded', 'real'])
def calc_quota_wigm() -> 'val':
    """ballots/(seats+1) exactly under exact arithmetic; that quotient truncated plus one unit in the last
    place under fixed-point arithmetic; floor(ballots/(seats+1))+1 with integer_quota"""
    N = E.electionProfile.nBallots
    s = E.electionProfile.nSeats
    requires(s >= 1)
    requires(N >= 0)
    if truthy(self.integer_quota):
        ensures(result == V_of_int(N // (s + 1) + 1))
    else:
        if instance_is('real'):
            ensures(result * V_of_int(s + 1) == V_of_int(N))
        else:
            if instance_is('guarded'):
                ensures(floor_of(units(result), N * scale_S(), s + 1))
            else:
                ensures(floor_of(units(result) - 1, N * scale_S(), s + 1))
    modifies()


@contract(['droop.rules.scotland.Rule.count.<locals>.calcQuota', 'droop.rules.mpls.Rule.count.<locals>.calcQuota'],
          props=['C04', 'C03'], free={'E': 'Election', 'V': 'vclass'})
def calc_quota_integer() -> 'val':
    "Scottish 46(2) / Minneapolis threshold: the quotient ignoring any fraction, increased by one"
    N = E.electionProfile.nBallots
    s = E.electionProfile.nSeats
    requires(s >= 1)
    requires(N >= 0)
    ensures(result == V_of_int(N // (s + 1) + 1))
    modifies()


@contract(['droop.rules.wigm_prf.Rule.count.<locals>.calcQuota', 'droop.rules.cfer.Rule.count.<locals>.calcQuota'],
          props=['C04', 'C03'], free={'E': 'Election', 'V': 'vclass'})
def calc_quota_fixed_eps() -> 'val':
    "PRF A.1 / CfER as given by C04: ballots/(seats+1) truncated at the rule's precision plus one unit"
    N = E.electionProfile.nBallots
    s = E.electionProfile.nSeats
    requires(s >= 1)
    requires(N >= 0)
    ensures(floor_of(units(result) - 1, N * scale_S(), s + 1))
    modifies()


# --------------------------------------------------------------------------------------------- C02 / C06 transfer
TRANSFER_H = ['droop.rules.wigm.Rule.count.<locals>.transfer', 'droop.rules.wigm_prf.Rule.count.<locals>.transfer',
              'droop.rules.cfer.Rule.count.<locals>.transfer', 'droop.rules.scotland.Rule.count.<locals>.transfer']


@contract(TRANSFER_H, props=['C02', 'C06'], free={'E': 'Election', 'C': 'Candidates'},
          instances=['scaled', 'real'], ledger=True)
def transfer_to_hopeful(ballot: 'Ballot'):
    """the ballot moves forward to the first hopeful candidate of its ranking (or is exhausted) and exactly its
    current value weight x multiplier is credited there (or to the non-transferable total); nothing else changes"""
    requires(same_ref(C, E.C))
    requires(ballot.index >= 0)
    requires(ballot.index <= seq_len(ballot.ranking))
    requires(is_whole(ballot.multiplier))
    r = ballot.ranking
    v = times_whole(ballot.weight, ballot.multiplier)
    ensures(ballot.index >= old(ballot.index))
    ensures(ballot.index <= seq_len(r))
    ensures(forall(range(old(ballot.index), ballot.index), lambda j: cand_by_cid(seq_at(r, j)).state != 'hopeful'),
            name='every candidate passed over is not hopeful')
    ensures(implies(ballot.index < seq_len(r), cand_by_cid(seq_at(r, ballot.index)).state == 'hopeful'),
            name='the ballot stands with a hopeful candidate')
    ensures(implies(ballot.index >= seq_len(r),
                    and_(E.exhausted == old(E.exhausted) + v, field_unchanged(Candidate, 'vote'))),
            name='exhausted: value goes to the non-transferable total')
    top = cand_by_cid(seq_at(r, ballot.index))
    ensures(implies(ballot.index < seq_len(r),
                    and_(E.exhausted == old(E.exhausted),
                         field_updated(Candidate, 'vote', top, old(top.vote) + v))),
            name='value credited to the new top candidate only')
    # ledger (C02): the total of all tallies and the non-transferable total grows by exactly the ballot's value, and the
    # value the ballot carried moves from the candidate it stood with to the one it now stands with (0: exhausted)
    requires(is_the_election(E))
    requires(is_ballot(ballot))
    ensures(ghost('T') == old(ghost('T')) + v, name='ledger: the total credited grows by exactly the value of the ballot')
    ensures(ghost_moved('G', old(top_ref(ballot)), top_ref(ballot), v),
            name='ledger: the value carried by the ballot moves with it')
    modifies(ballot, 'index')
    modifies(E, 'exhausted')
    modifies_all(Candidate, 'vote')
    modifies_ghost('T', 'G')


@loops(TRANSFER_H, anchor='while#1')
def transfer_loop(ballot):
    r = ballot.ranking
    invariant(ballot.index >= old(ballot.index))
    invariant(ballot.index <= seq_len(r))
    invariant(forall(range(old(ballot.index), ballot.index), lambda j: cand_by_cid(seq_at(r, j)).state != 'hopeful'))
    invariant(ghost('T') == old(ghost('T')))
    invariant(ghost_moved('G', old(top_ref(ballot)), top_ref(ballot), ballot_value(ballot)))
    variant(seq_len(r) - ballot.index)


@specfn
def continuing(c):
    "Minneapolis: a continuing candidate is hopeful (or elected with the transfer still pending, which this rule never leaves open)"
    return or_(c.state == 'hopeful', and_(c.state == 'elected', truthy(c.pending)))


@contract('droop.rules.mpls.Rule.count.<locals>.transfer', props=['C02', 'C06'], free={'E': 'Election', 'C': 'Candidates'}, ledger=True)
def transfer_to_continuing(ballot: 'Ballot'):
    """167.70(c)(1)d/e: the ballot moves forward to the next continuing candidate of its ranking (or is exhausted) and exactly its
    current value is credited there (or to the non-transferable total); nothing else changes"""
    requires(same_ref(C, E.C))
    requires(ballot.index >= 0)
    requires(ballot.index <= seq_len(ballot.ranking))
    requires(is_whole(ballot.multiplier))
    requires(is_the_election(E))
    requires(is_ballot(ballot))
    r = ballot.ranking
    v = times_whole(ballot.weight, ballot.multiplier)
    ensures(ballot.index >= old(ballot.index))
    ensures(ballot.index <= seq_len(r))
    ensures(forall(range(old(ballot.index), ballot.index), lambda j: not_(continuing(cand_by_cid(seq_at(r, j))))),
            name='every candidate passed over is not continuing')
    ensures(implies(ballot.index < seq_len(r), continuing(cand_by_cid(seq_at(r, ballot.index)))),
            name='the ballot stands with a continuing candidate')
    ensures(implies(ballot.index >= seq_len(r),
                    and_(E.exhausted == old(E.exhausted) + v, field_unchanged(Candidate, 'vote'))),
            name='exhausted: value goes to the non-transferable total')
    top = cand_by_cid(seq_at(r, ballot.index))
    ensures(implies(ballot.index < seq_len(r),
                    and_(E.exhausted == old(E.exhausted),
                         field_updated(Candidate, 'vote', top, old(top.vote) + v))),
            name='value credited to the new top candidate only')
    ensures(ghost('T') == old(ghost('T')) + v, name='ledger: the total credited grows by exactly the value of the ballot')
    ensures(ghost_moved('G', old(top_ref(ballot)), top_ref(ballot), v),
            name='ledger: the value carried by the ballot moves with it')
    modifies(ballot, 'index')
    modifies(E, 'exhausted')
    modifies_all(Candidate, 'vote')
    modifies_ghost('T', 'G')


@loops('droop.rules.mpls.Rule.count.<locals>.transfer', anchor='while#1')
def transfer_continuing_loop(ballot):
    r = ballot.ranking
    invariant(ballot.index >= old(ballot.index))
    invariant(ballot.index <= seq_len(r))
    invariant(forall(range(old(ballot.index), ballot.index), lambda j: not_(continuing(cand_by_cid(seq_at(r, j))))))
    invariant(ghost('T') == old(ghost('T')))
    invariant(ghost_moved('G', old(top_ref(ballot)), top_ref(ballot), ballot_value(ballot)))
    variant(seq_len(r) - ballot.index)


# --------------------------------------------------------------------------------------------- C07 breakTie
BREAKTIE_E = ['droop.rules.wigm.Rule.count.<locals>.breakTie', 'droop.rules.wigm_prf.Rule.count.<locals>.breakTie',
              'droop.rules.meek.Rule.count.<locals>.breakTie']
BREAKTIE = ['droop.rules.mpls.Rule.count.<locals>.breakTie', 'droop.rules.qpq.Rule.count.<locals>.breakTie']


@contract(BREAKTIE_E, props=['C07'], free={'C': 'Candidates'})
def break_tie_e(E: 'Election', tied: 'abs:Candidate', reason: 'str|none' = None) -> 'Candidate':
    "a single candidate is returned silently; otherwise the first in tie-break order, and the tie is logged"
    requires(same_ref(C, E.C))
    requires(length(tied) >= 1)
    ensures(mem(tied, result))
    ensures(implies(length(tied) == 1, ghost('nlog') == old(ghost('nlog'))), name='no tie action for a single candidate')
    ensures(implies(length(tied) > 1, and_(ghost('nlog') == old(ghost('nlog')) + 1, ghost('lasttag') == 'tie')),
            name='every resolution is logged')
    ensures(implies(length(tied) > 1, forall(tied, lambda c: result.tieOrder <= c.tieOrder)),
            name='resolved by the declared tie-break order')
    modifies_ghost('nlog', 'lasttag', 'lastmsg')


@contract(BREAKTIE, props=['C07'], free={'C': 'Candidates', 'E': 'Election'})
def break_tie(tied: 'abs:Candidate', reason: 'str|none' = None) -> 'Candidate':
    requires(same_ref(C, E.C))
    requires(length(tied) >= 1)
    ensures(mem(tied, result))
    ensures(implies(length(tied) == 1, ghost('nlog') == old(ghost('nlog'))), name='no tie action for a single candidate')
    ensures(implies(length(tied) > 1, and_(ghost('nlog') == old(ghost('nlog')) + 1, ghost('lasttag') == 'tie')),
            name='every resolution is logged')
    ensures(implies(length(tied) > 1, forall(tied, lambda c: result.tieOrder <= c.tieOrder)),
            name='resolved by the declared tie-break order')
    modifies_ghost('nlog', 'lasttag', 'lastmsg')


@specfn
def beats(m, c, d, low):
    "at saved stage m candidate c is strictly lower (exclusion) / strictly higher (surplus) than d"
    return ite(low, snap_vote(m, c) < snap_vote(m, d), snap_vote(m, c) > snap_vote(m, d))


@specfn
def sole_extreme(m, c, tied, low):
    "c is the one tied candidate with the fewest (most) votes at stage m"
    return and_(mem(tied, c), forall(tied, lambda d: implies(not_(same_ref(d, c)), beats(m, c, d, low))))


@specfn
def decided_at(m, tied, low):
    "the tied candidates' tallies single one of them out at stage m"
    return exists(tied, lambda c: sole_extreme(m, c, tied, low))


@contract('droop.rules.scotland.Rule.count.<locals>.breakTie', props=['C07', 'C03', 'C11'], free={'C': 'Candidates', 'E': 'Election'},
          instances=['scaled'])
def break_tie_scotland(tied: 'abs:Candidate', reason: 'str' = None) -> 'Candidate':
    """rules 49(2)(3) / 51(2): the most recent earlier stage at which the tied candidates' tallies single one of them
    out decides (fewest votes for an exclusion, most for a surplus); if no stage does, the lot (tie order)"""
    requires(same_ref(C, E.C))
    requires(is_the_election(E))
    requires(length(tied) >= 1)
    requires(forall(tied, lambda c: in_election(c)))
    requires(E.round >= 0)
    low = str_has(reason, 'defeat')
    ensures(mem(tied, result))
    ensures(implies(length(tied) == 1, ghost('nlog') == old(ghost('nlog'))), name='no tie action for a single candidate')
    ensures(implies(length(tied) > 1, and_(ghost('nlog') == old(ghost('nlog')) + 1, ghost('lasttag') == 'tie')),
            name='every resolution is logged')
    ensures(implies(length(tied) > 1,
                    forall(range(0, E.round),
                           lambda n: implies(and_(decided_at(n, tied, low),
                                                  forall(range(n + 1, E.round), lambda m: not_(decided_at(m, tied, low)))),
                                             sole_extreme(n, result, tied, low)))),
            name='the most recent stage that singles one candidate out decides')
    ensures(implies(and_(length(tied) > 1, forall(range(0, E.round), lambda m: not_(decided_at(m, tied, low)))),
                    forall(tied, lambda c: result.tieOrder <= c.tieOrder)),
            name='otherwise by lot: the declared tie-break order')
    modifies_ghost('nlog', 'lasttag', 'lastmsg')


@loops('droop.rules.scotland.Rule.count.<locals>.breakTie', anchor='for#1')
def break_tie_scotland_stages(tied, reason):
    low = str_has(reason, 'defeat')
    invariant(forall(range(E.round - it, E.round), lambda m: not_(decided_at(m, tied, low))))
    invariant(ghost('nlog') == old(ghost('nlog')))


@loops('droop.rules.scotland.Rule.count.<locals>.breakTie', anchor='for#2')
def break_tie_scotland_find(tied, reason):
    invariant(forall(tied, lambda c: implies(visited(c), c.cid != cn0.cid)))
