"""
Contracts for droop/options.py   (C17 option precedence; used by C20 and by every rule's options())

An option store is four dictionaries; dhas(d,k) / dval(d,k) read them.
"""
Options = cls('droop.options.Options')

schema('droop.options.Options',
       fields={'cmd_options': 'ref:dict', 'file_options': 'ref:dict', 'default': 'ref:dict', 'force': 'ref:dict',
               'allowed': 'ref:dict'})


@specfn
def opt_inv(o):
    "the five dictionaries are distinct objects"
    return distinct_refs(o.cmd_options, o.file_options, o.default, o.force, o.allowed)


@specfn
def effective(o, k):
    "forced value, else caller's / command-line value, else ballot-file value, else the rule's default, else None"
    return ite(dhas(o.force, k), dval(o.force, k),
               ite(dhas(o.cmd_options, k), dval(o.cmd_options, k),
                   ite(dhas(o.file_options, k), dval(o.file_options, k),
                       ite(dhas(o.default, k), dval(o.default, k), any_none()))))


@contract('droop.options.Options.normalize', props=['C17'])
def options_normalize(item: 'any|none') -> 'any':
    "decimal strings become ints; everything else is returned unchanged"
    raises(ValueError, when=and_(is_digit_string(item), not_(int_accepts(item))))
    ensures(any_same(result, norm_any(item)))
    modifies()


@contract('droop.options.Options.getopt', props=['C17'])
def options_getopt(self: 'Options', optname: 'any') -> 'any':
    requires(opt_inv(self))
    ensures(any_same(result, effective(self, optname)))
    modifies()


@contract('droop.options.Options.setopt', props=['C17'])
def options_setopt(self: 'Options', optname: 'any', default: 'any|none' = None, force: 'bool' = False,
                   allowed: 'none|abs:any' = None) -> 'any':
    """records the default the first time, the forced value when force is set; returns the effective value;
    a value outside `allowed` is a usage error"""
    requires(opt_inv(self))
    nd = norm_any(default)
    raises(ValueError, when=and_(is_digit_string(default), not_(int_accepts(default))))
    ensures(dict_is(self.default, old_dict(self.default), optname,
                    ite(old(dhas(self.default, optname)), old(dval(self.default, optname)), nd)),
            name='default layer: set once, never overwritten')
    if force:
        ensures(dict_is(self.force, old_dict(self.force), optname, nd), name='forced value recorded')
    else:
        ensures(dict_same(self.force, old_dict(self.force)))
    ensures(dict_same(self.cmd_options, old_dict(self.cmd_options)))
    ensures(dict_same(self.file_options, old_dict(self.file_options)))
    ensures(any_same(result, effective(self, optname)), name='returns the effective value by precedence')
    if not_(is_none(allowed)):
        if length(allowed) > 0:
            raises(UsageError, when=not_(any_mem(allowed, effective_after_setopt(self, optname, nd, force))))
    modifies_dict(self.default)
    modifies_dict(self.force)
    modifies_dict(self.allowed)


@specfn
def effective_after_setopt(o, k, nd, force):
    "effective value of k once setopt has recorded default/force (evaluated in the pre-state)"
    return ite(force, nd,
               ite(dhas(o.force, k), dval(o.force, k),
                   ite(dhas(o.cmd_options, k), dval(o.cmd_options, k),
                       ite(dhas(o.file_options, k), dval(o.file_options, k),
                           ite(dhas(o.default, k), dval(o.default, k), nd)))))


@contract('droop.options.Options.record', props=['C17'])
def options_record(self: 'Options') -> 'ref:dict':
    """the record reports the layers: a new dictionary holding a copy of each of the five option dictionaries
    and, under 'options', for every name the effective value by precedence"""
    requires(opt_inv(self))
    ensures(fresh(result))
    ensures(and_(dict_has_ref(result, 'cmd'), dict_copy_of(dref(result, 'cmd'), self.cmd_options)), name="'cmd' layer reported")
    ensures(and_(dict_has_ref(result, 'file_options'), dict_copy_of(dref(result, 'file_options'), self.file_options)),
            name="'file_options' layer reported")
    ensures(and_(dict_has_ref(result, 'default'), dict_copy_of(dref(result, 'default'), self.default)), name="'default' layer reported")
    ensures(and_(dict_has_ref(result, 'force'), dict_copy_of(dref(result, 'force'), self.force)), name="'force' layer reported")
    ensures(and_(dict_has_ref(result, 'allowed'), dict_copy_of(dref(result, 'allowed'), self.allowed)), name="'allowed' reported")
    ensures(dict_has_ref(result, 'options'))
    ensures(forall('any', lambda k: iff(dhas(dref(result, 'options'), k),
                                        or_(dhas(self.force, k), dhas(self.cmd_options, k), dhas(self.file_options, k),
                                            dhas(self.default, k)))),
            name="'options' has exactly the names of the four layers")
    ensures(forall('any', lambda k: implies(dhas(dref(result, 'options'), k),
                                            any_same(dval(dref(result, 'options'), k), effective(self, k)))),
            name="'options' reports the effective value by precedence")
    ensures(forall('any', lambda k: implies(dhas(result, k),
                                            or_(any_is_str(k, 'cmd'), any_is_str(k, 'file_options'), any_is_str(k, 'default'),
                                                any_is_str(k, 'force'), any_is_str(k, 'allowed'), any_is_str(k, 'options')))),
            name='no other entries')
    modifies()


@contract('droop.options.Options.unused', props=['C17'])
def options_unused(self: 'Options') -> 'abs:any':
    "the unused options: given by the caller or the ballot file, never asked for by the rule (rule and path excepted)"
    requires(opt_inv(self))
    ensures(forall('any', lambda k: iff(any_mem(result, k),
                                        and_(or_(dhas(self.file_options, k), dhas(self.cmd_options, k)),
                                             not_(any_is_str(k, 'rule')), not_(any_is_str(k, 'path')),
                                             not_(dhas(self.default, k))))),
            name='exactly the supplied names the rule never set up')
    modifies()


@contract('droop.options.Options.overrides', props=['C17'])
def options_overrides(self: 'Options') -> 'abs:any':
    "the overridden options: forced by the rule while the caller or the ballot file asked for a different value"
    requires(opt_inv(self))
    ensures(forall('any', lambda k: iff(any_mem(result, k),
                                        and_(dhas(self.force, k),
                                             or_(dhas(self.cmd_options, k), dhas(self.file_options, k)),
                                             not_(any_eq(ite(dhas(self.cmd_options, k), dval(self.cmd_options, k),
                                                             dval(self.file_options, k)),
                                                         dval(self.force, k)))))),
            name='exactly the forced names for which a different value was supplied (command line over ballot file)')
    modifies()
