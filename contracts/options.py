"""
Contracts for droop/options.py   (C17 option precedence; used by C20 and by every rule's options())

An option store is four dictionaries; dhas(d,k) / dval(d,k) read them.
"""
Options = cls('droop.options.Options')

schema('droop.options.Options',
       fields={'cmd_options': 'ref:dict', 'file_options': 'ref:dict', 'default': 'ref:dict', 'force': 'ref:dict',
               'allowed': 'ref:dict'})


@specfn
def opt_inv(o):
    "the five dictionaries are distinct objects"
    return distinct_refs(o.cmd_options, o.file_options, o.default, o.force, o.allowed)


@specfn
def effective(o, k):
    "forced value, else caller's / command-line value, else ballot-file value, else the rule's default, else None"
    return ite(dhas(o.force, k), dval(o.force, k),
               ite(dhas(o.cmd_options, k), dval(o.cmd_options, k),
                   ite(dhas(o.file_options, k), dval(o.file_options, k),
                       ite(dhas(o.default, k), dval(o.default, k), any_none()))))


@contract('droop.options.Options.normalize', props=['C17'])
def options_normalize(item: 'any|none') -> 'any':
    "decimal strings become ints; everything else is returned unchanged"
    raises(ValueError, when=and_(is_digit_string(item), not_(int_accepts(item))))
    ensures(any_same(result, norm_any(item)))
    modifies()


@contract('droop.options.Options.getopt', props=['C17'])
def options_getopt(self: 'Options', optname: 'any') -> 'any':
    requires(opt_inv(self))
    ensures(any_same(result, effective(self, optname)))
    modifies()


@contract('droop.options.Options.setopt', props=['C17'])
def options_setopt(self: 'Options', optname: 'any', default: 'any|none' = None, force: 'bool' = False,
                   allowed: 'none|abs:any' = None) -> 'any':
    """records the default the first time, the forced value when force is set; returns the effective value;
    a value outside `allowed` is a usage error"""
    requires(opt_inv(self))
    nd = norm_any(default)
    raises(ValueError, when=and_(is_digit_string(default), not_(int_accepts(default))))
    ensures(dict_is(self.default, old_dict(self.default), optname,
                    ite(old(dhas(self.default, optname)), old(dval(self.default, optname)), nd)),
            name='default layer: set once, never overwritten')
    if force:
        ensures(dict_is(self.force, old_dict(self.force), optname, nd), name='forced value recorded')
    else:
        ensures(dict_same(self.force, old_dict(self.force)))
    ensures(dict_same(self.cmd_options, old_dict(self.cmd_options)))
    ensures(dict_same(self.file_options, old_dict(self.file_options)))
    ensures(any_same(result, effective(self, optname)), name='returns the effective value by precedence')
    if not_(is_none(allowed)):
        if length(allowed) > 0:
            raises(UsageError, when=not_(any_mem(allowed, effective_after_setopt(self, optname, nd, force))))
    modifies_dict(self.default)
    modifies_dict(self.force)
    modifies_dict(self.allowed)


@specfn
def effective_after_setopt(o, k, nd, force):
    "effective value of k once setopt has recorded default/force (evaluated in the pre-state)"
    return ite(force, nd,
               ite(dhas(o.force, k), dval(o.force, k),
                   ite(dhas(o.cmd_options, k), dval(o.cmd_options, k),
                       ite(dhas(o.file_options, k), dval(o.file_options, k),
                           ite(dhas(o.default, k), dval(o.default, k), nd)))))
