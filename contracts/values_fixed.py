"""
Contracts for droop/values/fixed.py   (C12 arithmetic, C14 printing, C20 class state)

v(x) = x._value is the stored integer; S = 10**precision is the class scale; an int operand k
denotes k*S.  All statements are over mathematical integers (Python ints are unbounded).
"""
Fixed = cls('droop.values.fixed.Fixed')

schema('droop.values.fixed.Fixed',
       fields={'_value': 'int'},
       cattrs={'precision': 'int', 'display': 'int', '_Fixed__scale': 'int', '_Fixed__scaled': 'int',
               '_Fixed__scaledd': 'int', '_Fixed__scaledr': 'int', '_Fixed__dfmt': 'str',
               'epsilon': 'ref:droop.values.fixed.Fixed', 'name': 'str', 'info': 'str'})
# Fixed.exact / Fixed.quasi_exact are class-body constants (False); SCAN class-writes shows nothing assigns them


@specfn
def fixed_inv():
    "class state established by Fixed.initialize (proved there), as a function of precision/display"
    p = Fixed.precision
    d = Fixed.display
    return and_(p >= 0, d >= 0, d <= p,
                Fixed._Fixed__scale == pow10(p),
                Fixed._Fixed__scaled == pow10(d),
                Fixed._Fixed__scaledd == pow10(p - d),
                Fixed._Fixed__scaledr == Fixed._Fixed__scaledd // 2,
                is_dfmt(Fixed._Fixed__dfmt, d),
                not_(Fixed.exact), not_(Fixed.quasi_exact))


@specfn
def fS():
    return Fixed._Fixed__scale


@specfn
def flift(x):
    "stored integer denoted by an operand: int k -> k*S ; Fixed x -> x._value"
    if is_int(x):
        return x * Fixed._Fixed__scale
    return x._value


# ---------------------------------------------------------------------------------------------
@contract('droop.values.fixed.Fixed.__init__', props=['C12', 'C13'])
def fixed_init(self: 'Fixed', arg: 'int|Fixed', setval: 'bool' = False):
    if is_int(arg):
        ensures(self._value == ite(setval, arg, arg * fS()))
    else:
        requires(not_(setval))
        ensures(self._value == arg._value)
    modifies(self, '_value')


@contract('droop.values.fixed.Fixed.__add__', props=['C12', 'C13'])
def fixed_add(self: 'Fixed', other: 'int|Fixed') -> 'Fixed':
    "addition is exact"
    requires(fixed_inv())
    ensures(result._value == self._value + flift(other))
    ensures(fresh(result))
    modifies()


@contract('droop.values.fixed.Fixed.__sub__', props=['C12', 'C13'])
def fixed_sub(self: 'Fixed', other: 'int|Fixed') -> 'Fixed':
    "subtraction is exact"
    requires(fixed_inv())
    ensures(result._value == self._value - flift(other))
    ensures(fresh(result))
    modifies()


@contract('droop.values.fixed.Fixed.__neg__', props=['C12', 'C13'])
def fixed_neg(self: 'Fixed') -> 'Fixed':
    requires(fixed_inv())
    ensures(result._value == -self._value)
    ensures(fresh(result))
    modifies()


@contract('droop.values.fixed.Fixed.__pos__', props=['C12', 'C13'])
def fixed_pos(self: 'Fixed') -> 'Fixed':
    requires(fixed_inv())
    ensures(result._value == self._value)
    ensures(fresh(result))
    modifies()


@contract('droop.values.fixed.Fixed.__abs__', props=['C12', 'C13'])
def fixed_abs(self: 'Fixed') -> 'Fixed':
    requires(fixed_inv())
    ensures(result._value == abs(self._value))
    ensures(fresh(result))
    modifies()


@contract('droop.values.fixed.Fixed.__bool__', props=['C12', 'C13'])
def fixed_bool(self: 'Fixed') -> 'bool':
    requires(fixed_inv())
    ensures(result == (self._value != 0))
    modifies()


@contract('droop.values.fixed.Fixed.__mul__', props=['C12', 'C13'])
def fixed_mul(self: 'Fixed', other: 'int|Fixed') -> 'Fixed':
    "multiplication by an int is exact; a product is the exact product rounded toward minus infinity"
    requires(fixed_inv())
    if is_int(other):
        ensures(result._value == self._value * other)
    else:
        ensures(floor_of(result._value, self._value * other._value, fS()))
    ensures(fresh(result))
    modifies()


@contract('droop.values.fixed.Fixed.__floordiv__', props=['C12', 'C13'])
def fixed_floordiv(self: 'Fixed', other: 'int|Fixed') -> 'Fixed':
    "a quotient is the exact quotient rounded toward minus infinity"
    requires(fixed_inv())
    if is_int(other):
        raises(ZeroDivisionError, when=other == 0)
        ensures(floor_of(result._value, self._value, other))
    else:
        raises(ZeroDivisionError, when=other._value == 0)
        ensures(floor_of(result._value, self._value * fS(), other._value))
    ensures(fresh(result))
    modifies()


@contract('droop.values.fixed.Fixed.mul', props=['C12', 'C13'])
def fixed_cmul(arg1: 'int|Fixed', arg2: 'int|Fixed', round: 'str|none' = None) -> 'Fixed':
    requires(fixed_inv())
    a = flift(arg1)
    b = flift(arg2)
    bad = not_(or_(round == 'down', round == 'up'))
    raises(ValueError, when=bad)
    if round == 'up':
        ensures(ceil_of(result._value, a * b, fS()))
    else:
        ensures(floor_of(result._value, a * b, fS()))
    ensures(fresh(result))
    modifies()


@contract('droop.values.fixed.Fixed.div', props=['C12', 'C13'])
def fixed_cdiv(arg1: 'int|Fixed', arg2: 'int|Fixed', round: 'str|none' = None) -> 'Fixed':
    requires(fixed_inv())
    a = flift(arg1)
    b = flift(arg2)
    bad = not_(or_(round == 'down', round == 'up'))
    raises(ValueError, when=bad)
    raises(ZeroDivisionError, when=and_(not_(bad), b == 0))
    if round == 'up':
        ensures(ceil_of(result._value, a * fS(), b))
    else:
        ensures(floor_of(result._value, a * fS(), b))
    ensures(fresh(result))
    modifies()


@contract('droop.values.fixed.Fixed.muldiv', props=['C12', 'C13'])
def fixed_cmuldiv(arg1: 'int|Fixed', arg2: 'int|Fixed', arg3: 'int|Fixed', round: 'str|none' = None) -> 'Fixed':
    "fused multiply-divide keeps the full precision of the product"
    requires(fixed_inv())
    a = flift(arg1)
    b = flift(arg2)
    c = flift(arg3)
    bad = not_(or_(round == 'down', round == 'up'))
    raises(ZeroDivisionError, when=c == 0)
    raises(ValueError, when=and_(bad, c != 0))
    if round == 'up':
        ensures(ceil_of(result._value, a * b, c))
    else:
        ensures(floor_of(result._value, a * b, c))
    ensures(fresh(result))
    modifies()


@contract('droop.values.fixed.Fixed.__eq__', props=['C12', 'C13'])
def fixed_eq(self: 'Fixed', other: 'Fixed') -> 'bool':
    requires(fixed_inv())
    ensures(result == (self._value == other._value))
    modifies()


@contract('droop.values.fixed.Fixed.__ne__', props=['C12', 'C13'])
def fixed_ne(self: 'Fixed', other: 'Fixed') -> 'bool':
    requires(fixed_inv())
    ensures(result == (self._value != other._value))
    modifies()


@contract('droop.values.fixed.Fixed.__lt__', props=['C12', 'C13'])
def fixed_lt(self: 'Fixed', other: 'Fixed') -> 'bool':
    requires(fixed_inv())
    ensures(result == (self._value < other._value))
    modifies()


@contract('droop.values.fixed.Fixed.__le__', props=['C12', 'C13'])
def fixed_le(self: 'Fixed', other: 'Fixed') -> 'bool':
    requires(fixed_inv())
    ensures(result == (self._value <= other._value))
    modifies()


@contract('droop.values.fixed.Fixed.__gt__', props=['C12', 'C13'])
def fixed_gt(self: 'Fixed', other: 'Fixed') -> 'bool':
    requires(fixed_inv())
    ensures(result == (self._value > other._value))
    modifies()


@contract('droop.values.fixed.Fixed.__ge__', props=['C12', 'C13'])
def fixed_ge(self: 'Fixed', other: 'Fixed') -> 'bool':
    requires(fixed_inv())
    ensures(result == (self._value >= other._value))
    modifies()


@contract('droop.values.fixed.Fixed.__str__', props=['C14'])
def fixed_str(self: 'Fixed') -> 'str':
    "the printed numeral is the exact value v/S rounded half-up to `display` digits, sign included"
    requires(fixed_inv())
    v = self._value
    S = fS()
    D = pow10(Fixed.display)
    n = (2 * v * D + S) // (2 * S)
    ensures(str_denotes(result, n, D), name='printed numeral == value rounded half-up at display digits')
    modifies()
