"""
Schemas and contracts for droop/candidate.py, droop/candidates.py, droop/election.py
(the housekeeping every rule is written against).

Ghost counters (maintained by the engine at every write of Candidate.state / .pending; their
reading as cardinalities is the card-update lemma, lemmas/Droop.lean):
    nH, nE, nD, nW  number of candidates of the election that are hopeful / elected / defeated /
                    withdrawn ;  nP  number that are elected with transfer pending
Ghost log: nlog (number of actions logged), lasttag / lastcand (tag and subject of the latest).
"""
Candidate = cls('droop.candidate.Candidate')
Candidates = cls('droop.candidates.Candidates')
Election = cls('droop.election.Election')
Ballot = cls('droop.election.Election.Ballot')

schema('droop.candidate.Candidate',
       fields={'E': 'ref:droop.election.Election', 'cid': 'int', 'order': 'int', 'tieOrder': 'int',
               'name': 'str', 'nick': 'str', 'state': 'str', 'isUndeclared': 'bool', 'vote': 'val',
               'kf': 'opt:val', 'quotient': 'opt:val', 'pending': 'opt:bool', 'tc': 'val'})

schema('droop.candidates.Candidates',
       fields={'E': 'ref:droop.election.Election'})

schema('droop.election.Election',
       fields={'V': 'vclass', 'V0': 'const:V0', 'V1': 'const:V1', 'C': 'ref:droop.candidates.Candidates',
               'rule': 'model:rule', 'options': 'ref:droop.options.Options',
               'electionProfile': 'ref:droop.profile.ElectionProfile',
               'erecord': 'ref:droop.record.ElectionRecord',
               'round': 'int', 'intr_logged': 'bool', 'quota': 'val', 'surplus': 'val', 'votes': 'val',
               'residual': 'val', 'exhausted': 'val', 'tx': 'val', 'va': 'val',
               'ballots': 'model:ballots', 'ballotsEqual': 'model:ballotsEqual', 'rounds': 'model:rounds',
               'elected': 'model:result', 'defeated': 'model:result', 'withdrawn': 'model:result'})

schema('droop.election.Election.Ballot',
       fields={'E': 'ref:droop.election.Election', 'multiplier': 'val', 'index': 'int', 'weight': 'val',
               'residual': 'val', 'ranking': 'seq:int'})

schema('droop.profile.ElectionProfile',
       fields={'nSeats': 'int', 'nBallots': 'int', 'title': 'str', 'source': 'opt:str', 'comment': 'opt:str'})


# ---------------------------------------------------------------------------------------------
# Candidate status writers: change-and-log in one call (C18), counters (C01, C09)

@contract('droop.candidate.Candidate.elect', props=['C09', 'C18', 'C01'])
def cand_elect(self: 'Candidate', msg: 'str|none' = None, pending: 'bool' = False):
    "hopeful -> elected (cfer's 'Elect pending' re-elects a pending candidate); logs an 'elect' action naming self"
    requires(in_election(self))
    requires(or_(self.state == 'hopeful', and_(self.state == 'elected', truthy(self.pending))),
             name='elect only a hopeful (or pending) candidate')
    ensures(self.state == 'elected')
    ensures(self.pending == pending)
    ensures(logged_now('elect', self))
    ensures(ghost('nlog') == old(ghost('nlog')) + 1)
    modifies(self, 'state', 'pending')
    modifies_ghost('nH', 'nE', 'nP', 'nlog', 'lasttag', 'lastmsg')
    ensures(ghost('nH') == old(ghost('nH')) - ite(old(self.state) == 'hopeful', 1, 0))
    ensures(ghost('nE') == old(ghost('nE')) + ite(old(self.state) == 'hopeful', 1, 0))
    ensures(ghost('nP') == old(ghost('nP')) + ite(pending, 1, 0)
            - ite(and_(old(self.state) == 'elected', truthy(old(self.pending))), 1, 0))


@contract('droop.candidate.Candidate.defeat', props=['C09', 'C18', 'C01'])
def cand_defeat(self: 'Candidate', msg: 'str' = 'Defeat'):
    "hopeful -> defeated; logs a 'defeat' action naming self"
    requires(in_election(self))
    requires(self.state == 'hopeful', name='defeat only a hopeful candidate')
    ensures(self.state == 'defeated')
    ensures(logged_now('defeat', self))
    ensures(ghost('nlog') == old(ghost('nlog')) + 1)
    modifies(self, 'state')
    modifies_ghost('nH', 'nD', 'nlog', 'lasttag', 'lastmsg')
    ensures(ghost('nH') == old(ghost('nH')) - 1)
    ensures(ghost('nD') == old(ghost('nD')) + 1)


@contract('droop.candidate.Candidate.unpend', props=['C09', 'C18'])
def cand_unpend(self: 'Candidate', msg: 'str|none' = None):
    requires(in_election(self))
    requires(and_(self.state == 'elected', truthy(self.pending)), name='unpend only an elected, pending candidate')
    ensures(self.state == 'elected')
    ensures(self.pending == False)
    modifies(self, 'pending')
    modifies_ghost('nP', 'nlog', 'lasttag', 'lastmsg')
    ensures(ghost('nP') == old(ghost('nP')) - 1)
    ensures(implies(truthy(msg), logged_now('unpend', self)))
    ensures(ghost('nlog') == old(ghost('nlog')) + ite(truthy(msg), 1, 0))


@contract('droop.candidate.Candidate.unelect', props=['C09'])
def cand_unelect(self: 'Candidate'):
    "QPQ restart only (call-site obligation in rules_sites.py)"
    requires(in_election(self))
    requires(and_(self.state == 'elected', not_(truthy(self.pending))), name='unelect only an elected candidate')
    ensures(self.state == 'hopeful')
    modifies(self, 'state')
    modifies_ghost('nH', 'nE')
    ensures(ghost('nH') == old(ghost('nH')) + 1)
    ensures(ghost('nE') == old(ghost('nE')) - 1)


@contract('droop.candidate.Candidate.zeroVote', props=['C02'], ledger=True)
def cand_zero(self: 'Candidate'):
    ensures(self.vote == self.E.V0)
    ensures(implies(in_election(self), ghost('T') == old(ghost('T')) - old(self.vote)), name='ledger: the total drops by what the candidate held')
    ensures(implies(not_(in_election(self)), ghost('T') == old(ghost('T'))))
    modifies(self, 'vote')
    modifies_ghost('T', 'Tm')


@contract('droop.candidate.Candidate.addVote', props=['C02'], ledger=True)
def cand_add(self: 'Candidate', addValue: 'val'):
    ensures(self.vote == old(self.vote) + addValue)
    ensures(implies(in_election(self), ghost('T') == old(ghost('T')) + addValue), name='ledger: the total grows by the value added')
    ensures(implies(not_(in_election(self)), ghost('T') == old(ghost('T'))))
    modifies(self, 'vote')
    modifies_ghost('T', 'Tm')


@contract('droop.candidate.Candidate.surplus', props=['C02'])
def cand_surplus(self: 'Candidate') -> 'val':
    ensures(result == ite(self.vote - self.E.quota < self.E.V0, self.E.V0, self.vote - self.E.quota))
    modifies()


ACTION_TAGS = ('begin', 'count', 'log', 'round', 'tie', 'elect', 'defeat', 'iterate', 'unpend', 'transfer', 'end')


@specfn
def valid_tag(tag):
    "one of the eleven action tags ElectionRecord.action accepts"
    return or_(tag == 'begin', tag == 'count', tag == 'log', tag == 'round', tag == 'tie', tag == 'elect', tag == 'defeat',
               tag == 'iterate', tag == 'unpend', tag == 'transfer', tag == 'end')


@contract('droop.election.Election.logAction', props=['C18', 'C19'])
def election_log(self: 'Election', action: 'str', msg: 'str'):
    "records exactly one complete action with this tag and message (delegates to ElectionRecord.action)"
    requires(valid_tag(action))
    modifies_ghost('nlog', 'lasttag', 'lastmsg')
    ensures(ghost('nlog') == old(ghost('nlog')) + 1)
    ensures(ghost('lasttag') == action)
    ensures(ghost('lastmsg') == msg)
    ensures(ghost('lastcomplete') == 1, name='the recorded action is complete when it is appended')


@contract('droop.election.Election.log', props=['C18'])
def election_logmsg(self: 'Election', msg: 'str'):
    modifies_ghost('nlog', 'lasttag', 'lastmsg')
    ensures(ghost('nlog') == old(ghost('nlog')) + 1)
    ensures(ghost('lasttag') == 'log')
    ensures(ghost('lastmsg') == msg)


@contract('droop.election.Election.newRound', props=['C09'])
def election_newround(self: 'Election'):
    "round numbers only grow"
    ensures(self.round == old(self.round) + 1)
    modifies(self, 'round')
    modifies_ghost('nlog', 'lasttag', 'lastmsg')
    ensures(ghost('nlog') == old(ghost('nlog')) + 1)
    ensures(ghost('lasttag') == 'round')


@contract('droop.election.Election.seatsLeftToFill', props=['C01'])
def election_seatsleft(self: 'Election') -> 'int':
    ensures(result == self.electionProfile.nSeats - ghost('nE'))
    modifies()


@contract('droop.election.Election.nSeats', props=['C01'])
def election_nseats(self: 'Election') -> 'int':
    ensures(result == self.electionProfile.nSeats)
    modifies()


@contract('droop.election.Election.nBallots', props=['C01'])
def election_nballots(self: 'Election') -> 'int':
    ensures(result == self.electionProfile.nBallots)
    modifies()


@contract('droop.election.Election.prog', props=[],
          trusted='writes a progress mark to sys.stdout and flushes (console I/O is outside the subset); touches no election state')
def election_prog(msg: 'str'):
    modifies()


# ---------------------------------------------------------------------------------------------
# Ballot

@contract('droop.election.Election.Ballot.advance', props=['C06', 'C02'], ledger=True)
def ballot_advance(self: 'Ballot'):
    requires(and_(self.index >= 0, self.index < seq_len(self.ranking)), name='advance only a ballot that is not exhausted')
    ensures(self.index == old(self.index) + 1)
    # ledger: the value the ballot carries moves from the candidate it stood with to the next one on it (0: exhausted)
    ensures(ghost_moved('G', old(top_ref(self)), top_ref(self), ballot_value(self), is_ballot(self)),
            name='ledger: the value carried by the ballot moves with it')
    modifies(self, 'index')
    modifies_ghost('G')


@contract('droop.election.Election.Ballot.exhausted', props=['C06'])
def ballot_exhausted(self: 'Ballot') -> 'bool':
    ensures(result == (self.index >= seq_len(self.ranking)))
    modifies()


@contract('droop.election.Election.Ballot.topRank', props=['C06'])
def ballot_toprank(self: 'Ballot') -> 'opt:int':
    requires(self.index >= 0)
    ensures(is_none(result) == (self.index >= seq_len(self.ranking)))
    ensures(implies(self.index < seq_len(self.ranking), result == seq_at(self.ranking, self.index)))
    modifies()


@contract('droop.election.Election.Ballot.vote', props=['C02', 'C10'])
def ballot_vote(self: 'Ballot') -> 'val':
    "the ballot's value is exactly weight x multiplier (the multiplier is a whole number of ballots)"
    requires(is_whole(self.multiplier))
    result_is(times_whole(self.weight, self.multiplier))
    ensures(result == times_whole(self.weight, self.multiplier))
    modifies()


@contract('droop.election.Election.Ballot.topCand', props=['C06'])
def ballot_topcand(self: 'Ballot') -> 'opt:Candidate':
    requires(self.index >= 0)
    ensures(is_none(result) == (self.index >= seq_len(self.ranking)))
    ensures(implies(self.index < seq_len(self.ranking),
                    same_ref(some(result), cand_by_cid(seq_at(self.ranking, self.index)))))
    modifies()


# ---------------------------------------------------------------------------------------------
# C19 O-marker: the interruption line is logged exactly once, whichever renderers are asked for

@contract(['droop.election.Election.report', 'droop.election.Election.dump', 'droop.election.Election.json'], props=['C19'],
          )
def election_render(self: 'Election', intr: 'bool' = False) -> 'str':
    "asking for an interrupted rendering logs the marker once and remembers it"
    ensures(ghost('nlog') == old(ghost('nlog')) + ite(and_(intr, not_(old(self.intr_logged))), 1, 0),
            name='the interruption marker is logged exactly once')
    ensures(self.intr_logged == or_(old(self.intr_logged), intr))
    ensures(implies(and_(intr, not_(old(self.intr_logged))), ghost('lastmsg') == '** count interrupted; this round is incomplete **'))
    modifies(self, 'intr_logged')
    modifies_ghost('nlog', 'lasttag', 'lastmsg')


Record = cls('droop.record.ElectionRecord')
schema('droop.record.ElectionRecord', fields={'E': 'ref:droop.election.Election', 'filled': 'model:flag'})


@contract(['droop.record.ElectionRecord.report', 'droop.record.ElectionRecord.dump', 'droop.record.ElectionRecord.json'],
          props=['C18'], trusted='renderers build text from the record dictionaries (nested dict/list structure outside the '
                                 'verified subset); their agreement with the record is checked by the bounded stand-in of C18')
def record_render(self: 'Record', intr: 'bool' = False) -> 'str':
    modifies()


schema('droop.rules.electionrule.ElectionRule', fields={'E': 'ref:droop.election.Election'})
schema('droop.rules.electionmethods.MethodWIGM', fields={'E': 'ref:droop.election.Election'})
schema('droop.rules.electionmethods.MethodMeek', fields={'E': 'ref:droop.election.Election', 'omega': 'any'})

RULE_ACTION_HOOKS = ['droop.rules.electionrule.ElectionRule.action', 'droop.rules.electionmethods.MethodWIGM.action',
                     'droop.rules.electionmethods.MethodMeek.action', 'droop.rules.qpq.Rule.action']


@specfn
def keeps(d, snap, key):
    "entry `key` of dictionary d is what it was in the snapshot"
    return and_(iff(dhas(d, key), dhas_in(snap, key)), any_same(dval(d, key), dval_in(snap, key)))


@contract(RULE_ACTION_HOOKS, props=['C18', 'C19'])
def rule_action_hook(self: 'any_rule', record: 'Record', action: 'dict|none' = None):
    """the rule's recording hook (every override is held to this one contract): it adds the rule's own entries to the
    action and never removes or rewrites the tag, message, round, state snapshot or quota the record put there"""
    if not_(is_none(action)):
        ensures(keeps(action, old_dict(action), 'tag'))
        ensures(keeps(action, old_dict(action), 'msg'))
        ensures(keeps(action, old_dict(action), 'round'))
        ensures(keeps(action, old_dict(action), 'cstate'))
        ensures(keeps(action, old_dict(action), 'quota'))
        ensures(implies(old(dhas(action, 'votes')), dhas(action, 'votes')))
        modifies_dict(action)
    modifies()


@contract(['droop.candidates.Candidates.cState', 'droop.candidates.Candidates.copy'], props=['C18'],
          trusted='pure builders of reporting snapshots (a dictionary of per-candidate dictionaries / a set of shallow copies): '
                  'they change nothing; what they contain is checked by the bounded stand-in of C18')
def candidates_snapshot(self: 'Candidates') -> 'any':
    modifies()


@contract('droop.record.ElectionRecord._fill', props=['C18', 'C19'],
          trusted='fills the header entries of the record (title, rule, arithmetic, candidates, options): it never touches the '
                  'action list (SCAN fill-does-not-touch-actions); the header content is checked by the bounded stand-in')
def record_fill(self: 'Record'):
    modifies()


@contract('droop.record.ElectionRecord.action', props=['C18', 'C19'])
def record_action(self: 'Record', tag: 'str', msg: 'str'):
    """appends exactly one action carrying this tag and message, and only once it is complete: the state snapshot,
    totals and quota are in place and the rule's hook has run (plain 'log' lines carry tag, message and round only)"""
    requires(valid_tag(tag))
    modifies_ghost('nlog', 'lasttag', 'lastmsg')
    ensures(ghost('nlog') == old(ghost('nlog')) + 1, name='exactly one action is appended')
    ensures(ghost('lasttag') == tag)
    ensures(ghost('lastmsg') == msg)
    ensures(ghost('lastcomplete') == 1, name='the action is complete when it is appended')
